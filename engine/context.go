package main

// Native model of package context (the real implementation relies on
// atomic.Value / unsafe and internal goroutines).

import (
	"go/types"

	"golang.org/x/tools/go/ssa"
)

func (in *Interp) ctxType() types.Type {
	p := in.prog.ImportedPackage("context")
	return types.NewPointer(p.Type("cancelCtx").Type())
}

func (in *Interp) ctxGlobal(name string) Value {
	p := in.prog.ImportedPackage("context")
	g := p.Var(name)
	return load(in.globalAddr(g))
}

func (in *Interp) newCtx(parent *NativeObj) *NativeObj {
	o := &NativeObj{kind: "ctx", f: map[string]Value{}}
	o.f["done"] = &Chan{id: in.sched.nextChanID()}
	o.f["err"] = Iface{}
	if parent != nil {
		o.parent = parent
		parent.children = append(parent.children, o)
		if e := parent.f["err"].(Iface); e.T != nil {
			in.ctxCancel(o, e)
		} else if pd, ok := parent.f["done"].(*Chan); ok && pd != nil && pd.env == "done" {
			// child of an environment-cancelled context shares its done channel
			o.f["done"] = pd
			o.f["envparent"] = parent
		}
	}
	return o
}

func (in *Interp) ctxCancel(o *NativeObj, err Iface) {
	if e := o.f["err"].(Iface); e.T != nil {
		return
	}
	o.f["err"] = err
	if c, ok := o.f["done"].(*Chan); ok && c != nil && !c.closed && c.env == "" {
		c.closed = true
	}
	for _, ch := range o.children {
		in.ctxCancel(ch, err)
	}
}

func ctxOf(v Value) *NativeObj {
	if i, ok := v.(Iface); ok {
		if o, ok := i.V.(*NativeObj); ok && o.kind == "ctx" {
			return o
		}
		if i.T == nil {
			return nil
		}
	}
	unsup("context implementation other than the modelled one: %s", fmtValue(v))
	return nil
}

func (in *Interp) ctxIface(o *NativeObj) Value { return Iface{T: in.ctxType(), V: o} }

func init() {
	reg := func(name string, f intrinsicFn) { lateIntrinsics[name] = f }
	reg("context.Background", func(in *Interp, fr *frame, args []Value) Value {
		if in.bgCtx == nil {
			in.bgCtx = &NativeObj{kind: "ctx", f: map[string]Value{"done": (*Chan)(nil), "err": Iface{}}}
		}
		return in.ctxIface(in.bgCtx)
	})
	lateIntrinsics["context.TODO"] = lateIntrinsics["context.Background"]
	withCancel := func(in *Interp, fr *frame, args []Value) Value {
		parent := ctxOf(args[0])
		o := in.newCtx(parent)
		cancel := &NativeFn{name: "ctx.cancel", fn: func(in *Interp, a []Value) Value {
			in.ctxCancel(o, in.ctxGlobal("Canceled").(Iface))
			return nil
		}}
		return Tuple{in.ctxIface(o), cancel}
	}
	reg("context.WithCancel", withCancel)
	// deadlines never fire by themselves in the model (stated stub): same as WithCancel
	reg("context.WithTimeout", func(in *Interp, fr *frame, args []Value) Value {
		in.ex.stats.Stubs["context.WithTimeout/WithDeadline: the deadline itself never fires"] = true
		return withCancel(in, fr, args[:1])
	})
	reg("context.WithDeadline", lateIntrinsics["context.WithTimeout"])
	reg("context.WithValue", func(in *Interp, fr *frame, args []Value) Value {
		parent := ctxOf(args[0])
		o := in.newCtx(parent)
		o.f["key"], o.f["val"] = args[1], args[2]
		return in.ctxIface(o)
	})
	nativeMethods["ctx.Done"] = func(in *Interp, o *NativeObj, args []Value) Value { return o.f["done"] }
	nativeMethods["ctx.Err"] = func(in *Interp, o *NativeObj, args []Value) Value {
		if c, ok := o.f["done"].(*Chan); ok && c != nil && c.env == "done" {
			if c.envClosed {
				return in.ctxGlobal("Canceled")
			}
			return Iface{}
		}
		return o.f["err"]
	}
	nativeMethods["ctx.Value"] = func(in *Interp, o *NativeObj, args []Value) Value {
		for c := o; c != nil; c = c.parent {
			if k, ok := c.f["key"]; ok {
				if kt, ok := equals(k, args[0]).ConstBool(); ok && kt {
					return c.f["val"]
				}
			}
		}
		return Iface{}
	}
	nativeMethods["ctx.Deadline"] = func(in *Interp, o *NativeObj, args []Value) Value {
		tt := in.prog.ImportedPackage("time").Type("Time").Type()
		return Tuple{zero(tt), False}
	}
	// environment-cancelled context: Done() may become ready at any select
	verifIntrinsics["verifEnvContext"] = func(in *Interp, fr *frame, args []Value) Value {
		o := &NativeObj{kind: "ctx", f: map[string]Value{}}
		o.f["done"] = &Chan{id: in.sched.nextChanID(), env: "done"}
		o.f["err"] = Iface{}
		return in.ctxIface(o)
	}
}

var lateIntrinsics = map[string]intrinsicFn{}

var _ ssa.Value
