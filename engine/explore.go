package main

// Path state, decisions and the DFS-by-re-execution explorer.

import (
	"fmt"
	"os"
	"sync"
	"time"
	"sort"
	"strings"
)

// pathEnd aborts the current path (not a target panic).
type pathEnd struct {
	kind string // "assume", "done", "budget", "unsupported", "deadlock", "infeasible"
	msg  string
}

type nondetRec struct {
	Name string
	Kind string // "sym" | "choice"
	W    uint8
	T    *Term // sym
	V    int64 // choice
	Internal bool // created by an engine model (clock, rand), not by the harness
}

type Violation struct {
	ID        string
	Msg       string
	Harness   string
	Decisions []dec
	Nondet    []replayVal
	Notes     []string
	Native    string // "", "reproduced", "not-reproduced", "unsupported"
	ReplayFile string
}

type replayVal struct {
	Name string `json:"name"`
	Kind string `json:"kind"`
	V    uint64 `json:"v"`
}

type dec struct {
	D   int    `json:"d"`   // alternative taken; for branches bit0 = side, bit1 = implied (no fork)
	Aux uint64 `json:"aux"` // concretize: the value compared against
}

type workItem struct {
	prefix []dec
	model  Model
}

type Path struct {
	prefix []dec
	taken  []dec
	pc     []*Term
	model  Model
	vars   []*Term
	nondet []nondetRec
	names  map[string]int
	steps  int64
	notes  []string
	envFires int
	preempts int
	mapOrders int
	known    map[*Term]bool // conditions implied by the path condition (monotone: stays valid as pc grows)
}

type Stats struct {
	Paths        int
	PathsDone    int
	PathsAssume  int
	PathsPanic   int
	PathsDead    int
	Inconclusive []string
	Asserts      int // assertion checks that needed a query or were decided
	AssertsConst int
	Reach        map[string]int
	Cover        map[string]bool
	Steps        int64
	Funcs        map[string]bool
	Stubs        map[string]bool
	Violations   []*Violation
	violSeen     map[string]int
	Samples      []string
	Guided       [][]replayVal // solver-produced inputs of completed paths, replayed natively for the differential validation
	Validated    int
	ValidatedFull int // of those, traces that ran the harness to its end (not cut at an assumption)
	IfConv       int
}

// Pool holds one DFS stack per worker; an idle worker steals the oldest
// (shallowest) prefix of another worker, which keeps each solver's assertion
// stack close to the path it explores next.
type Pool struct {
	mu       sync.Mutex
	cond     *sync.Cond
	deadline time.Time // wall-clock budget of this harness (zero: none)
	timedOut bool
	stacks   [][]workItem
	active   int
	paths    int
	maxPaths int
	overflow bool
}

func newPool(maxPaths, workers int) *Pool {
	p := &Pool{maxPaths: maxPaths, stacks: make([][]workItem, workers)}
	p.cond = sync.NewCond(&p.mu)
	return p
}

func (p *Pool) push(w int, it workItem) {
	if p == nil {
		return // concrete re-execution: alternatives are not explored
	}
	p.mu.Lock()
	p.stacks[w] = append(p.stacks[w], it)
	p.mu.Unlock()
	p.cond.Signal()
}

// pop blocks until an item is available or every worker is idle.
func (p *Pool) pop(w int) (workItem, bool) {
	p.mu.Lock()
	defer p.mu.Unlock()
	for {
		pending := 0
		for _, s := range p.stacks {
			pending += len(s)
		}
		if !p.deadline.IsZero() && time.Now().After(p.deadline) {
			if pending > 0 {
				p.timedOut = true
			}
			p.cond.Broadcast()
			return workItem{}, false
		}
		if p.maxPaths > 0 && p.paths >= p.maxPaths {
			if pending > 0 {
				p.overflow = true
			}
			p.cond.Broadcast()
			return workItem{}, false
		}
		if n := len(p.stacks[w]); n > 0 {
			it := p.stacks[w][n-1]
			p.stacks[w] = p.stacks[w][:n-1]
			p.active++
			p.paths++
			return it, true
		}
		if pending > 0 {
			// steal the oldest item of the fullest stack
			best := -1
			for i, s := range p.stacks {
				if len(s) > 0 && (best < 0 || len(s) > len(p.stacks[best])) {
					best = i
				}
			}
			it := p.stacks[best][0]
			p.stacks[best] = p.stacks[best][1:]
			p.active++
			p.paths++
			return it, true
		}
		if p.active == 0 {
			p.cond.Broadcast()
			return workItem{}, false
		}
		p.cond.Wait()
	}
}

func (p *Pool) done() {
	p.mu.Lock()
	p.active--
	p.mu.Unlock()
	p.cond.Broadcast()
}

type Explorer struct {
	in      *Interp
	solver  *Solver
	pool    *Pool
	stats   *Stats
	path    *Path
	maxSteps int64
	maxPaths int
	maxViolPerID int
	lastProg time.Time
	id      int
	shard   *shardSel
	fixed   []replayVal // concrete mode: values for nondets in call order
	fixedPos int
	obs     []string
	failed  []string
}

func newStats() *Stats {
	return &Stats{Reach: map[string]int{}, Cover: map[string]bool{}, Funcs: map[string]bool{}, Stubs: map[string]bool{}, violSeen: map[string]int{}}
}

func (ex *Explorer) nextFixed(name string) (uint64, bool) {
	if ex.fixed == nil {
		return 0, false
	}
	if ex.fixedPos >= len(ex.fixed) || ex.fixed[ex.fixedPos].Name != name {
		return 0, false
	}
	v := ex.fixed[ex.fixedPos].V
	ex.fixedPos++
	return v, true
}

// freshInternal creates a symbolic value on behalf of an engine model.
func (ex *Explorer) freshInternal(name string, w uint8) *Term {
	p := ex.path
	k := p.names[name]
	p.names[name] = k + 1
	v := Var(fmt.Sprintf("%s#%d", name, k), w)
	p.vars = append(p.vars, v)
	p.nondet = append(p.nondet, nondetRec{Name: name, Kind: "sym", W: w, T: v, Internal: true})
	return v
}

func (ex *Explorer) fresh(name string, w uint8) *Term {
	if v, ok := ex.nextFixed(name); ok {
		return BV(w, v)
	}
	p := ex.path
	k := p.names[name]
	p.names[name] = k + 1
	full := fmt.Sprintf("%s#%d", name, k)
	v := Var(full, w)
	p.vars = append(p.vars, v)
	p.nondet = append(p.nondet, nondetRec{Name: name, Kind: "sym", W: w, T: v})
	return v
}

func (ex *Explorer) addPC(c *Term) {
	if v, ok := c.ConstBool(); ok {
		if !v {
			panic(pathEnd{"infeasible", "constant false constraint"})
		}
		return
	}
	ex.path.pc = append(ex.path.pc, c)
}

// branch decides a symbolic condition, forking when both sides are feasible.
func (ex *Explorer) branch(cond *Term) bool { return ex.branchAux(cond, 0) }

func (ex *Explorer) branchAux(cond *Term, aux uint64) bool {
	if v, ok := cond.ConstBool(); ok {
		return v
	}
	p := ex.path
	n := len(p.taken)
	if n < len(p.prefix) {
		d := p.prefix[n]
		p.taken = append(p.taken, d)
		side := d.D&1 == 1
		p.setKnown(cond, side)
		if d.D&2 == 0 {
			if side {
				ex.addPC(cond)
			} else {
				ex.addPC(BNot(cond))
			}
		}
		return side
	}
	if v, ok := p.lookupKnown(cond); ok {
		p.taken = append(p.taken, dec{b2i(v) | 2, aux})
		return v
	}
	// new decision: side indicated by the model is feasible for free
	mv := p.model.Eval(cond) != 0
	var other *Term
	if mv {
		other = BNot(cond)
	} else {
		other = cond
	}
	res, m := ex.solver.Check(p.pc, other, p.vars)
	switch res {
	case Sat:
		alt := append(append([]dec(nil), p.taken...), dec{b2i(!mv), aux})
		ex.pool.push(ex.id, workItem{prefix: alt, model: m})
	case Unknown:
		ex.inconclusive("solver unknown at branch: " + strings.Join(ex.solver.lastErrors(), "; ") + " on path " + ex.describePath())
	}
	if res == Unsat {
		// implied by the path condition: recorded (for exact re-execution) but no constraint
		p.taken = append(p.taken, dec{b2i(mv) | 2, aux})
		p.setKnown(cond, mv)
		return mv
	}
	p.taken = append(p.taken, dec{b2i(mv), aux})
	p.setKnown(cond, mv)
	if mv {
		ex.addPC(cond)
	} else {
		ex.addPC(BNot(cond))
	}
	return mv
}

func (p *Path) lookupKnown(c *Term) (bool, bool) {
	if p.known == nil {
		return false, false
	}
	if v, ok := p.known[c]; ok {
		return v, true
	}
	if c.op == OpBNot {
		if v, ok := p.known[c.args[0]]; ok {
			return !v, true
		}
	}
	return false, false
}

func (p *Path) setKnown(c *Term, v bool) {
	if p.known == nil {
		p.known = map[*Term]bool{}
	}
	if c.op == OpBNot {
		p.known[c.args[0]] = !v
		return
	}
	p.known[c] = v
}

func b2i(b bool) int {
	if b {
		return 1
	}
	return 0
}

// choose is a nondeterministic choice among n always-feasible alternatives.
func (ex *Explorer) choose(n int, label string) int {
	if n <= 1 {
		return 0
	}
	p := ex.path
	k := len(p.taken)
	if k < len(p.prefix) {
		d := p.prefix[k]
		p.taken = append(p.taken, d)
		return d.D
	}
	for i := n - 1; i >= 1; i-- {
		alt := append(append([]dec(nil), p.taken...), dec{i, 0})
		ex.pool.push(ex.id, workItem{prefix: alt, model: p.model})
	}
	p.taken = append(p.taken, dec{0, 0})
	return 0
}

// concretize forks over the feasible values of t (bounded).
func (ex *Explorer) concretize(t *Term, what string) uint64 {
	if t.op == OpConst {
		return t.c
	}
	for i := 0; i < 300; i++ {
		p := ex.path
		var v uint64
		if n := len(p.taken); n < len(p.prefix) {
			v = p.prefix[n].Aux
		} else {
			v = p.model.Eval(t)
		}
		if ex.branchAux(Eq(t, BV(t.w, v)), v) {
			return v
		}
	}
	unsup("concretize(%s): more than 300 feasible values", what)
	return 0
}

func (ex *Explorer) assume(c *Term) {
	if v, ok := c.ConstBool(); ok {
		if !v {
			panic(pathEnd{"assume", "assume(false)"})
		}
		return
	}
	p := ex.path
	if len(p.taken) < len(p.prefix) {
		// inside the replayed prefix: the stored model satisfies everything up to the last decision
		ex.addPC(c)
		return
	}
	if p.model.Eval(c) != 0 {
		ex.addPC(c)
		return
	}
	res, m := ex.solver.Check(p.pc, c, p.vars)
	switch res {
	case Sat:
		p.model = m
		ex.addPC(c)
	case Unsat:
		panic(pathEnd{"assume", "assumption infeasible"})
	default:
		ex.inconclusive("solver unknown at assume")
		panic(pathEnd{"unsupported", "solver unknown at assume"})
	}
}

func (ex *Explorer) inconclusive(msg string) {
	for _, m := range ex.stats.Inconclusive {
		if m == msg {
			return
		}
	}
	if len(ex.stats.Inconclusive) < 50 {
		ex.stats.Inconclusive = append(ex.stats.Inconclusive, msg)
	}
}

func (s *Solver) lastErrors() []string {
	if len(s.Errors) > 3 {
		return s.Errors[len(s.Errors)-3:]
	}
	return s.Errors
}

// assert checks pc ∧ ¬c.
func (ex *Explorer) assert(c *Term, id string, msg string) {
	st := ex.stats
	if ex.fixed != nil {
		if v, ok := c.ConstBool(); ok {
			if !v {
				ex.failed = append(ex.failed, id)
			}
		} else {
			ex.failed = append(ex.failed, id+"<symbolic>")
		}
		return
	}
	if v, ok := c.ConstBool(); ok {
		st.AssertsConst++
		if v {
			return
		}
		ex.violation(id, msg, ex.path.model)
		panic(pathEnd{"assert", "assertion failed (concrete): " + id})
	}
	p := ex.path
	if len(p.taken) < len(p.prefix) {
		// already decided by the path this prefix was forked from (same pc)
		ex.addPC(c)
		p.setKnown(c, true)
		return
	}
	if v, ok := p.lookupKnown(c); ok && v {
		st.AssertsConst++
		return
	}
	st.Asserts++
	if p.model.Eval(c) == 0 {
		ex.violation(id, msg, p.model)
	} else {
		res, m := ex.solver.Check(p.pc, BNot(c), p.vars)
		switch res {
		case Sat:
			ex.violation(id, msg, m)
		case Unknown:
			ex.inconclusive("solver unknown at assert " + id)
		}
	}
	// continue under the assumption that it holds
	ex.assume(c)
	p.setKnown(c, true)
}

func (ex *Explorer) violation(id, msg string, m Model) {
	st := ex.stats
	st.violSeen[id]++
	if st.violSeen[id] > ex.maxViolPerID {
		return
	}
	v := &Violation{ID: id, Msg: msg, Decisions: append([]dec(nil), ex.path.taken...), Notes: append([]string(nil), ex.path.notes...)}
	for _, r := range ex.path.nondet {
		if r.Internal {
			continue
		}
		rv := replayVal{Name: r.Name, Kind: r.Kind}
		if r.Kind == "sym" {
			rv.V = m.Eval(r.T)
		} else {
			rv.V = uint64(r.V)
		}
		v.Nondet = append(v.Nondet, rv)
	}
	st.Violations = append(st.Violations, v)
}

// cover records whether cond is satisfiable on this path.
func (ex *Explorer) cover(c *Term, label string) {
	st := ex.stats
	if st.Cover[label] {
		return
	}
	if _, seen := st.Cover[label]; !seen {
		st.Cover[label] = false
	}
	if v, ok := c.ConstBool(); ok {
		if v {
			st.Cover[label] = true
		}
		return
	}
	p := ex.path
	if len(p.taken) < len(p.prefix) {
		return
	}
	if p.model.Eval(c) != 0 {
		st.Cover[label] = true
		return
	}
	res, _ := ex.solver.Check(p.pc, c, nil)
	if res == Sat {
		st.Cover[label] = true
	}
}

// Run explores paths from the shared pool until it is exhausted.
func (ex *Explorer) Run(run func()) {
	for {
		it, ok := ex.pool.pop(ex.id)
		if !ok {
			return
		}
		ex.runOne(it, run)
		ex.pool.done()
		if os.Getenv("GOSYM_PROGRESS") != "" && time.Since(ex.lastProg) > 5*time.Second {
			ex.lastProg = time.Now()
			fmt.Fprintf(os.Stderr, "   .. [w%d] paths=%d queries=%d solver=%.1fs steps=%d ifconv=%d\n", ex.id, ex.stats.Paths, ex.solver.Queries, ex.solver.SolverSec, ex.stats.Steps, ex.stats.IfConv)
		}
	}
}

func (ex *Explorer) runOne(it workItem, run func()) {
	ex.path = &Path{prefix: it.prefix, model: it.model, names: map[string]int{}}
	if ex.path.model == nil {
		ex.path.model = Model{}
	}
	st := ex.stats
	st.Paths++
	end := ex.in.runPath(run)
	st.Steps += ex.path.steps
	switch end.kind {
	case "done":
		st.PathsDone++
	case "assume", "infeasible":
		st.PathsAssume++
	case "assert":
		st.PathsDone++
	case "panic":
		st.PathsPanic++
		ex.inconclusive("unrecovered target panic: " + end.msg)
	case "deadlock":
		st.PathsDead++
		ex.inconclusive("deadlock: " + end.msg + " [" + ex.describePath() + "]")
	case "budget":
		ex.inconclusive("step budget exceeded: " + end.msg)
	case "unsupported":
		ex.inconclusive("unsupported: " + end.msg)
	default:
		ex.inconclusive("path ended: " + end.kind + " " + end.msg)
	}
	if len(ex.path.taken) < len(ex.path.prefix) && end.kind != "assume" && end.kind != "infeasible" {
		// a replayed prefix that is not consumed means re-execution diverged
		if end.kind == "done" {
			ex.inconclusive("re-execution consumed fewer decisions than its prefix (nondeterministic harness?)")
		}
	}
	if len(st.Samples) < 6 && end.kind == "done" {
		st.Samples = append(st.Samples, ex.describePath())
	}
	if end.kind == "done" && ex.fixed == nil && len(st.Guided) < 10 && st.PathsDone&(st.PathsDone-1) == 0 {
		var g []replayVal
		for _, r := range ex.path.nondet {
			if r.Internal {
				continue
			}
			rv := replayVal{Name: r.Name, Kind: r.Kind}
			if r.Kind == "sym" {
				rv.V = ex.path.model.Eval(r.T)
			} else {
				rv.V = uint64(r.V)
			}
			g = append(g, rv)
		}
		st.Guided = append(st.Guided, g)
	}
}

func (ex *Explorer) describePath() string {
	p := ex.path
	var sb strings.Builder
	fmt.Fprintf(&sb, "decisions=%v; ", p.taken)
	for i, r := range p.nondet {
		if i >= 24 {
			sb.WriteString("…")
			break
		}
		if r.Kind == "sym" {
			fmt.Fprintf(&sb, "%s=%d ", r.Name, p.model.Eval(r.T))
		} else {
			fmt.Fprintf(&sb, "%s:=%d ", r.Name, r.V)
		}
	}
	if len(p.notes) > 0 {
		sb.WriteString("; notes=" + strings.Join(p.notes, "|"))
	}
	return sb.String()
}

func sortedKeys(m map[string]bool) []string {
	out := make([]string, 0, len(m))
	for k := range m {
		out = append(out, k)
	}
	sort.Strings(out)
	return out
}

func (st *Stats) merge(o *Stats) {
	st.Paths += o.Paths
	st.PathsDone += o.PathsDone
	st.PathsAssume += o.PathsAssume
	st.PathsPanic += o.PathsPanic
	st.PathsDead += o.PathsDead
	st.Asserts += o.Asserts
	st.AssertsConst += o.AssertsConst
	st.Steps += o.Steps
	st.IfConv += o.IfConv
	for _, m := range o.Inconclusive {
		dup := false
		for _, x := range st.Inconclusive {
			if x == m {
				dup = true
			}
		}
		if !dup && len(st.Inconclusive) < 50 {
			st.Inconclusive = append(st.Inconclusive, m)
		}
	}
	for k, v := range o.Reach {
		st.Reach[k] += v
	}
	for k, v := range o.Cover {
		if v || !st.Cover[k] {
			st.Cover[k] = st.Cover[k] || v
		}
	}
	for k := range o.Funcs {
		st.Funcs[k] = true
	}
	for k := range o.Stubs {
		st.Stubs[k] = true
	}
	for _, v := range o.Violations {
		st.violSeen[v.ID]++
		if st.violSeen[v.ID] <= 3 {
			st.Violations = append(st.Violations, v)
		}
	}
	for _, g := range o.Guided {
		if len(st.Guided) < 16 {
			st.Guided = append(st.Guided, g)
		}
	}
	for _, s := range o.Samples {
		if len(st.Samples) < 6 {
			st.Samples = append(st.Samples, s)
		}
	}
}
