package main

// Symbolic interpreter over go/ssa (structure follows x/tools/go/ssa/interp).

import (
	"unsafe"
	"fmt"
	"go/token"
	"go/types"
	"os"
	"runtime/debug"
	"strings"

	"golang.org/x/tools/go/ssa"
)

type Interp struct {
	prog     *ssa.Program
	ex       *Explorer
	globals  map[*ssa.Global]*Value
	initDone map[*ssa.Package]bool
	spec     *Unit
	sched    *Sched
	modPath  string // module path of the repo
	noopPkgs map[string]bool
	initPkgs map[string]bool
	replace  map[string]*ssa.Function
	trace    bool
	methodCache map[string]*ssa.Function
	constTables map[*Value]int // read-only tables by address of first cell
	lastClock   *Term
	lastInstr   ssa.Instruction
	skipUserInit map[string]bool
	noIfConv    bool
	bgCtx       *NativeObj
	pkgBuilt    map[*ssa.Package]bool
	jsonSeq     int
	jsonVals    map[string]Iface
	mainPkg     *ssa.Package
	replaceAlways map[string]bool
	syncMaps    map[*Value]*Map
	randSeq     int
}

type deferred struct {
	fn   Value
	args []Value
	tail *deferred
}

type frame struct {
	in        *Interp
	caller    *frame
	fn        *ssa.Function
	block     *ssa.BasicBlock
	prevBlock *ssa.BasicBlock
	env       map[ssa.Value]Value
	locals    []Value
	defers    *deferred
	result    Value
	panicking bool
	panicVal  interface{}
	phitemps  []Value
	cur       ssa.Instruction
	// if-conversion: phis of the join block merge both predecessors
	mergeCond        *Term
	mergeT, mergeF   *ssa.BasicBlock
}

func (fr *frame) get(key ssa.Value) Value {
	switch key := key.(type) {
	case nil:
		return nil
	case *ssa.Function:
		return key
	case *ssa.Builtin:
		return key
	case *ssa.Const:
		return fr.in.constValue(key)
	case *ssa.Global:
		return fr.in.globalAddr(key)
	}
	if r, ok := fr.env[key]; ok {
		return r
	}
	panic(fmt.Sprintf("get: no value for %T: %v in %s", key, key.Name(), fr.fn))
}

func (in *Interp) constValue(c *ssa.Const) Value {
	if c.Value == nil {
		return zero(c.Type())
	}
	t := c.Type()
	if w, _, ok := intWidth(t); ok {
		if b, isb := t.Underlying().(*types.Basic); isb && b.Info()&types.IsUnsigned != 0 {
			return BV(w, c.Uint64())
		}
		return BV(w, uint64(c.Int64()))
	}
	if b, ok := t.Underlying().(*types.Basic); ok {
		switch {
		case b.Info()&types.IsBoolean != 0:
			return Bool(constantBool(c))
		case b.Info()&types.IsString != 0:
			return constantString(c)
		case b.Kind() == types.Float32:
			return float32(c.Float64())
		case b.Info()&types.IsFloat != 0:
			return c.Float64()
		case b.Info()&types.IsComplex != 0:
			return c.Complex128()
		}
	}
	panic(fmt.Sprintf("constValue: unexpected constant %v of type %v", c, t))
}

func (in *Interp) globalAddr(g *ssa.Global) *Value {
	if g.Pkg != nil {
		in.ensureInit(g.Pkg)
	}
	if r, ok := in.globals[g]; ok {
		return r
	}
	// package os is not initialised (its init needs the runtime); its portable error values
	// are aliases of io/fs's, which is
	if g.Pkg != nil && g.Pkg.Pkg.Path() == "os" {
		switch g.Name() {
		case "ErrInvalid", "ErrPermission", "ErrExist", "ErrNotExist", "ErrClosed":
			if fsp := in.prog.ImportedPackage("io/fs"); fsp != nil {
				if fg, ok := fsp.Members[g.Name()].(*ssa.Global); ok {
					cell := in.globalAddr(fg)
					in.globals[g] = cell
					return cell
				}
			}
		}
	}
	cell := new(Value)
	*cell = zero(deref(g.Type()))
	in.globals[g] = cell
	return cell
}

func (in *Interp) isNoop(pkg *ssa.Package) bool {
	if pkg == nil {
		return false
	}
	p := pkg.Pkg.Path()
	if in.noopPkgs[p] {
		return true
	}
	for q := range in.noopPkgs {
		if strings.HasSuffix(q, "/...") && strings.HasPrefix(p, strings.TrimSuffix(q, "...")) {
			return true
		}
	}
	return false
}

// ensureInit lazily runs a package initialiser (only for allowed packages).
func (in *Interp) ensureInit(pkg *ssa.Package) {
	if in.initDone[pkg] {
		return
	}
	in.initDone[pkg] = true
	path := pkg.Pkg.Path()
	if in.isNoop(pkg) {
		return
	}
	if !(strings.HasPrefix(path, in.modPath) || in.initPkgs[path]) {
		return
	}
	pkg.Build()
	initFn := pkg.Func("init")
	if initFn == nil || initFn.Blocks == nil {
		return
	}
	in.callSSA(nil, token.NoPos, initFn, nil, nil)
}

type enginePanic struct {
	msg   string
	stack string
}

func (fr *frame) runDefer(d *deferred) {
	var ok bool
	defer func() {
		if !ok {
			r := recover()
			if isEngineAbort(r) {
				panic(r)
			}
			fr.panicking = true
			fr.panicVal = r
		}
	}()
	fr.in.call(fr, token.NoPos, d.fn, d.args)
	ok = true
}

func isEngineAbort(r interface{}) bool {
	switch r.(type) {
	case pathEnd, unsupported, abortG:
		return true
	case targetPanic:
		return false
	case nil:
		return false
	}
	// Go runtime errors inside the engine itself are engine bugs: surface them
	return true
}

func (fr *frame) runDefers() {
	for d := fr.defers; d != nil; d = d.tail {
		fr.runDefer(d)
	}
	fr.defers = nil
	if fr.panicking {
		panic(fr.panicVal)
	}
}

func (in *Interp) lookupMethod(typ types.Type, meth *types.Func) *ssa.Function {
	key := typ.String() + "|" + meth.Id()
	if f, ok := in.methodCache[key]; ok {
		return f
	}
	f := in.prog.LookupMethod(typ, meth.Pkg(), meth.Name())
	in.methodCache[key] = f
	return f
}

func (in *Interp) rtPanic(msg string) {
	if in.lastInstr != nil {
		msg += fmt.Sprintf(" [at %s in %s]", in.prog.Fset.Position(in.lastInstr.Pos()), in.lastInstr.Parent())
	}
	panic(targetPanic{in.runtimeError(msg)})
}

func (in *Interp) runtimeError(msg string) Value {
	// dynamic type: runtime.errorString when available
	if rp := in.prog.ImportedPackage("runtime"); rp != nil {
		if t := rp.Type("errorString"); t != nil {
			return Iface{T: t.Object().Type(), V: "runtime error: " + msg}
		}
	}
	return Iface{T: types.Typ[types.String], V: "runtime error: " + msg}
}

func (in *Interp) step(fr *frame) {
	p := in.ex.path
	p.steps++
	if p.steps > in.ex.maxSteps {
		panic(pathEnd{"budget", fmt.Sprintf("more than %d steps in %s", in.ex.maxSteps, fr.fn)})
	}
}

type continuation int

const (
	kNext continuation = iota
	kReturn
	kJump
)

func (in *Interp) visitInstr(fr *frame, instr ssa.Instruction) continuation {
	in.step(fr)
	in.lastInstr = instr
	switch instr := instr.(type) {
	case *ssa.DebugRef:
	case *ssa.UnOp:
		fr.env[instr] = in.unop(fr, instr, fr.get(instr.X))
	case *ssa.BinOp:
		fr.env[instr] = in.binop(instr.Op, instr.X.Type(), fr.get(instr.X), fr.get(instr.Y))
	case *ssa.Call:
		fn, args := in.prepareCall(fr, &instr.Call)
		fr.env[instr] = in.call(fr, instr.Pos(), fn, args)
	case *ssa.ChangeInterface:
		fr.env[instr] = fr.get(instr.X)
	case *ssa.ChangeType:
		fr.env[instr] = fr.get(instr.X)
	case *ssa.Convert:
		fr.env[instr] = in.conv(instr.Type(), instr.X.Type(), fr.get(instr.X))
	case *ssa.SliceToArrayPointer:
		fr.env[instr] = in.sliceToArrayPointer(instr.Type(), fr.get(instr.X))
	case *ssa.MakeInterface:
		fr.env[instr] = Iface{T: instr.X.Type(), V: fr.get(instr.X)}
	case *ssa.Extract:
		fr.env[instr] = fr.get(instr.Tuple).(Tuple)[instr.Index]
	case *ssa.Slice:
		fr.env[instr] = in.sliceOp(instr, fr.get(instr.X), fr.get(instr.Low), fr.get(instr.High), fr.get(instr.Max))
	case *ssa.Return:
		switch len(instr.Results) {
		case 0:
		case 1:
			fr.result = fr.get(instr.Results[0])
		default:
			var res Tuple
			for _, r := range instr.Results {
				res = append(res, fr.get(r))
			}
			fr.result = res
		}
		fr.block = nil
		return kReturn
	case *ssa.RunDefers:
		fr.runDefers()
	case *ssa.Panic:
		panic(targetPanic{fr.get(instr.X)})
	case *ssa.Send:
		in.chanSend(fr.get(instr.Chan).(*Chan), fr.get(instr.X))
	case *ssa.Store:
		in.storeTo(fr.get(instr.Addr), fr.get(instr.Val))
	case *ssa.If:
		if c := fr.get(instr.Cond).(*Term); c.op != OpConst && in.tryIfConvert(fr, c) {
			return kJump
		}
		succ := 1
		if in.condBranch(fr, instr) {
			succ = 0
		}
		fr.prevBlock, fr.block = fr.block, fr.block.Succs[succ]
		return kJump
	case *ssa.Jump:
		fr.prevBlock, fr.block = fr.block, fr.block.Succs[0]
		return kJump
	case *ssa.Defer:
		fn, args := in.prepareCall(fr, &instr.Call)
		defers := &fr.defers
		if instr.DeferStack != nil {
			if into := fr.get(instr.DeferStack); into != nil {
				defers = into.(**deferred)
			}
		}
		*defers = &deferred{fn: fn, args: args, tail: *defers}
	case *ssa.Go:
		fn, args := in.prepareCall(fr, &instr.Call)
		in.sched.spawn(fmt.Sprintf("go@%s", in.prog.Fset.Position(instr.Pos())), func() {
			in.call(nil, instr.Pos(), fn, args)
		})
	case *ssa.MakeChan:
		n := in.ex.concretize(fr.get(instr.Size).(*Term), "chan size")
		fr.env[instr] = &Chan{cap: int(n), id: in.sched.nextChanID()}
	case *ssa.Alloc:
		var addr *Value
		if instr.Heap {
			addr = new(Value)
			fr.env[instr] = addr
		} else {
			addr = fr.env[instr].(*Value)
		}
		*addr = zero(deref(instr.Type()))
	case *ssa.MakeSlice:
		l := int(int64(in.ex.concretize(fr.get(instr.Len).(*Term), "make len")))
		c := int(int64(in.ex.concretize(fr.get(instr.Cap).(*Term), "make cap")))
		if l < 0 || c < l {
			in.rtPanic("makeslice: len out of range")
		}
		_ = hugeSlicePhys
		if c > 1<<47 {
			in.rtPanic("makeslice: len out of range")
		}
		if c > hugeSlicePhys {
			in.ex.stats.Stubs["huge allocation modelled lazily (memory exhaustion is outside the model)"] = true
		}
		fr.env[instr] = newSlice(l, c, instr.Type().Underlying().(*types.Slice).Elem())
	case *ssa.MakeMap:
		fr.env[instr] = newMap(instr.Type().Underlying().(*types.Map).Key())
	case *ssa.Range:
		fr.env[instr] = in.rangeIter(fr.get(instr.X), instr.X.Type())
	case *ssa.Next:
		fr.env[instr] = fr.get(instr.Iter).(iter).next()
	case *ssa.FieldAddr:
		x := fr.get(instr.X)
		p, ok := x.(*Value)
		if !ok {
			unsup("FieldAddr on %T", x)
		}
		if p == nil {
			in.rtPanic("invalid memory address or nil pointer dereference")
		}
		fr.env[instr] = &(*p).(Struct)[instr.Field]
	case *ssa.Field:
		fr.env[instr] = fr.get(instr.X).(Struct)[instr.Field]
	case *ssa.IndexAddr:
		fr.env[instr] = in.indexAddr(fr.get(instr.X), fr.get(instr.Index).(*Term), instr.Index.Type())
	case *ssa.Index:
		fr.env[instr] = in.index(fr.get(instr.X), fr.get(instr.Index).(*Term), instr.Index.Type())
	case *ssa.Lookup:
		fr.env[instr] = in.lookup(instr, fr.get(instr.X), fr.get(instr.Index))
	case *ssa.MapUpdate:
		m := fr.get(instr.Map).(*Map)
		if m == nil {
			panic(targetPanic{in.runtimeError("assignment to entry in nil map")})
		}
		in.mapInsert(m, fr.get(instr.Key), fr.get(instr.Value))
	case *ssa.TypeAssert:
		fr.env[instr] = in.typeAssert(instr, fr.get(instr.X).(Iface))
	case *ssa.MakeClosure:
		var bindings []Value
		for _, b := range instr.Bindings {
			bindings = append(bindings, fr.get(b))
		}
		fr.env[instr] = &Closure{instr.Fn.(*ssa.Function), bindings}
	case *ssa.Phi:
		panic("unreachable: phi")
	case *ssa.Select:
		fr.env[instr] = in.selectOp(instr, fr)
	default:
		unsup("instruction %T in %s block %d", instr, fr.fn, fr.block.Index)
	}
	return kNext
}

// pureBlock reports whether b consists only of side-effect free, non-trapping
// scalar instructions followed by a Jump.
func pureBlock(b *ssa.BasicBlock) bool {
	if len(b.Instrs) > 12 {
		return false
	}
	for i, ins := range b.Instrs {
		last := i == len(b.Instrs)-1
		switch x := ins.(type) {
		case *ssa.Jump:
			return last
		case *ssa.BinOp:
			if x.Op == token.QUO || x.Op == token.REM {
				return false
			}
			if _, _, ok := intWidth(x.X.Type()); !ok && !isBoolT(x.X.Type()) {
				return false
			}
		case *ssa.UnOp:
			if x.Op == token.MUL || x.Op == token.ARROW {
				return false
			}
			if _, _, ok := intWidth(x.X.Type()); !ok && !isBoolT(x.X.Type()) {
				return false
			}
		case *ssa.Convert:
			if _, _, ok := intWidth(x.X.Type()); !ok {
				return false
			}
			if _, _, ok := intWidth(x.Type()); !ok {
				return false
			}
		case *ssa.ChangeType, *ssa.DebugRef:
		default:
			return false
		}
	}
	return false
}

func scalarPhis(j *ssa.BasicBlock) bool {
	for _, ins := range j.Instrs {
		phi, ok := ins.(*ssa.Phi)
		if !ok {
			break
		}
		if _, _, ok := intWidth(phi.Type()); !ok && !isBoolT(phi.Type()) {
			return false
		}
	}
	return true
}

// tryIfConvert merges a side-effect free diamond/triangle into ite terms.
func (in *Interp) tryIfConvert(fr *frame, c *Term) bool {
	if in.noIfConv {
		return false
	}
	b := fr.block
	t, f := b.Succs[0], b.Succs[1]
	var join *ssa.BasicBlock
	var predT, predF *ssa.BasicBlock
	runT, runF := false, false
	switch {
	case len(t.Preds) == 1 && len(f.Preds) == 1 && len(t.Succs) == 1 && len(f.Succs) == 1 && t.Succs[0] == f.Succs[0] && pureBlock(t) && pureBlock(f):
		join, predT, predF, runT, runF = t.Succs[0], t, f, true, true
	case len(t.Preds) == 1 && len(t.Succs) == 1 && t.Succs[0] == f && pureBlock(t):
		join, predT, predF, runT = f, t, b, true
	case len(f.Preds) == 1 && len(f.Succs) == 1 && f.Succs[0] == t && pureBlock(f):
		join, predT, predF, runF = t, b, f, true
	default:
		return false
	}
	if join == t && join == f {
		return false
	}
	if !scalarPhis(join) {
		return false
	}
	// join must not have both merged preds identical
	if predT == predF {
		return false
	}
	exec := func(blk *ssa.BasicBlock) {
		for _, ins := range blk.Instrs {
			if _, ok := ins.(*ssa.Jump); ok {
				break
			}
			in.visitInstr(fr, ins)
		}
	}
	if runT {
		exec(t)
	}
	if runF {
		exec(f)
	}
	fr.mergeCond, fr.mergeT, fr.mergeF = c, predT, predF
	fr.prevBlock, fr.block = predT, join
	in.ex.stats.IfConv++
	return true
}

// condBranch evaluates an If condition (forking if symbolic).
func (in *Interp) condBranch(fr *frame, instr *ssa.If) bool {
	c := fr.get(instr.Cond).(*Term)
	return in.ex.branch(c)
}

func (in *Interp) storeTo(addr Value, v Value) {
	switch a := addr.(type) {
	case *Value:
		if a == nil {
			in.rtPanic("invalid memory address or nil pointer dereference")
		}
		store(a, v)
	case Ref:
		vt, ok := v.(*Term)
		if !ok {
			unsup("store of %T through symbolic index", v)
		}
		for i := range a.base {
			cur := a.base[i].(*Term)
			a.base[i] = Ite(Eq(a.idx, BV(64, uint64(i))), vt, cur)
		}
	default:
		unsup("store to %T", addr)
	}
}

func (in *Interp) loadFrom(addr Value) Value {
	switch a := addr.(type) {
	case *Value:
		if a == nil {
			in.rtPanic("invalid memory address or nil pointer dereference")
		}
		return load(a)
	case Ref:
		return in.selectRef(a)
	case RORef:
		return copyVal(a.v)
	}
	unsup("load from %T", addr)
	return nil
}

func (in *Interp) selectRef(a Ref) Value {
	n := len(a.base)
	allConst := n >= 16
	for _, e := range a.base {
		t, ok := e.(*Term)
		if !ok {
			unsup("symbolic index over non-scalar elements")
		}
		if t.op != OpConst {
			allConst = false
		}
	}
	if allConst && n <= 65536 {
		vals := make([]uint64, n)
		for i, e := range a.base {
			vals[i] = e.(*Term).c
		}
		id := TableID(a.base[0].(*Term).w, 16, vals)
		return TableSel(id, Extract(a.idx, 15, 0))
	}
	v := a.base[n-1].(*Term)
	for i := n - 2; i >= 0; i-- {
		v = Ite(Eq(a.idx, BV(64, uint64(i))), a.base[i].(*Term), v)
	}
	return v
}

func toIdx64(t *Term, typ types.Type) *Term {
	if t.w == 64 {
		return t
	}
	_, signed, _ := intWidth(typ)
	if signed {
		return SExt(t, 64)
	}
	return ZExt(t, 64)
}

// boundsCheck forks on idx in [0,n); panics on the out-of-range side.
func (in *Interp) boundsCheck(idx *Term, n int, what string) {
	inb := Ult(idx, BV(64, uint64(n)))
	if !in.ex.branch(inb) {
		in.rtPanic(fmt.Sprintf("index out of range [%s] with length %d", what, n))
	}
}

func (in *Interp) indexAddr(x Value, idx *Term, idxT types.Type) Value {
	idx = toIdx64(idx, idxT)
	var elems []Value
	switch x := x.(type) {
	case Slice:
		elems = x.elems()
	case *Value:
		if x == nil {
			in.rtPanic("invalid memory address or nil pointer dereference")
		}
		elems = (*x).(Array)
	default:
		unsup("IndexAddr on %T", x)
	}
	in.boundsCheck(idx, len(elems), "idx")
	if idx.op == OpConst {
		return &elems[idx.c]
	}
	if len(elems) > 0 {
		if _, scalar := elems[0].(*Term); scalar {
			return Ref{base: elems, idx: idx}
		}
	}
	// non-scalar elements under a symbolic index: fork over runs of identical elements
	type run struct{ lo, hi int }
	var runs []run
	for i := 0; i < len(elems); i++ {
		if len(runs) > 0 && sameRefValue(elems[runs[len(runs)-1].lo], elems[i]) {
			runs[len(runs)-1].hi = i
		} else {
			runs = append(runs, run{i, i})
		}
	}
	if len(runs) <= 32 {
		for ri, r := range runs {
			inRun := BAnd(Ule(BV(64, uint64(r.lo)), idx), Ule(idx, BV(64, uint64(r.hi))))
			if ri == len(runs)-1 || in.ex.branch(inRun) {
				if r.lo == r.hi {
					return &elems[r.lo]
				}
				return RORef{v: elems[r.lo]}
			}
		}
	}
	i := in.ex.concretize(idx, "index")
	return &elems[i]
}

// sameRefValue: identical reference-like values (pointers, nil) - used to group table entries.
func sameRefValue(a, b Value) bool {
	switch x := a.(type) {
	case *Value:
		y, ok := b.(*Value)
		return ok && x == y
	case *Map:
		y, ok := b.(*Map)
		return ok && x == y
	case *Chan:
		y, ok := b.(*Chan)
		return ok && x == y
	}
	return false
}

func (in *Interp) index(x Value, idx *Term, idxT types.Type) Value {
	idx = toIdx64(idx, idxT)
	switch x := x.(type) {
	case Array:
		in.boundsCheck(idx, len(x), "idx")
		if idx.op == OpConst {
			return copyVal(x[idx.c])
		}
		if _, scalar := x[0].(*Term); scalar {
			return in.selectRef(Ref{base: x, idx: idx})
		}
		return copyVal(x[in.ex.concretize(idx, "index")])
	case string, *SymStr:
		b := strBytes(x)
		in.boundsCheck(idx, len(b), "idx")
		if idx.op == OpConst {
			return b[idx.c]
		}
		vals := make([]Value, len(b))
		for i, t := range b {
			vals[i] = t
		}
		return in.selectRef(Ref{base: vals, idx: idx})
	}
	unsup("Index on %T", x)
	return nil
}

func (in *Interp) sliceOp(instr *ssa.Slice, x, lo, hi, max Value) Value {
	conc := func(v Value, def int) int {
		if v == nil {
			return def
		}
		t := v.(*Term)
		return int(int64(in.ex.concretize(SExt64(t), "slice bound")))
	}
	switch x := x.(type) {
	case string, *SymStr:
		if s, ok := x.(*SymStr); ok && s.opq != nil {
			unsup("slicing opaque numeric string")
		}
		n := strLen(x)
		l, h := conc(lo, 0), conc(hi, n)
		if l < 0 || h < l || h > n {
			in.rtPanic(fmt.Sprintf("slice bounds out of range [%d:%d] with length %d", l, h, n))
		}
		if cs, ok := x.(string); ok {
			return cs[l:h]
		}
		return mkStr(strBytes(x)[l:h])
	case Slice:
		l, h := conc(lo, 0), conc(hi, x.len)
		m := conc(max, x.cap)
		if l < 0 || h < l || m < h || m > x.cap {
			in.rtPanic(fmt.Sprintf("slice bounds out of range [%d:%d:%d] with capacity %d", l, h, m, x.cap))
		}
		if x.arr == nil {
			return Slice{}
		}
		return Slice{arr: x.arr, off: x.off + l, len: h - l, cap: m - l}
	case *Value: // *array
		if x == nil {
			in.rtPanic("nil pointer dereference (slice of nil *array)")
		}
		arr := []Value((*x).(Array))
		n := len(arr)
		l, h := conc(lo, 0), conc(hi, n)
		m := conc(max, n)
		if l < 0 || h < l || m < h || m > n {
			in.rtPanic("slice bounds out of range")
		}
		return Slice{arr: &arr, off: l, len: h - l, cap: m - l}
	}
	unsup("slice of %T", x)
	return nil
}

func SExt64(t *Term) *Term {
	if t.w == 64 {
		return t
	}
	return SExt(t, 64) // bounds are always int-typed or non-negative
}

func (in *Interp) sliceToArrayPointer(tdst types.Type, x Value) Value {
	s := x.(Slice)
	n := int(deref(tdst).Underlying().(*types.Array).Len())
	if s.len < n {
		in.rtPanic("cannot convert slice to array pointer: length too short")
	}
	if s.arr == nil {
		return (*Value)(nil)
	}
	// Array shares the backing cells
	var cell Value = Array((*s.arr)[s.off : s.off+n : s.off+n])
	return &cell
}

func (in *Interp) prepareCall(fr *frame, call *ssa.CallCommon) (fn Value, args []Value) {
	v := fr.get(call.Value)
	if call.Method == nil {
		fn = v
	} else {
		recv := v.(Iface)
		if recv.T == nil {
			if nt, ok := call.Value.Type().(*types.Named); ok && nt.Obj().Pkg() != nil && in.noopPkgs[nt.Obj().Pkg().Path()] {
				sig := call.Method.Type().(*types.Signature)
				fn = &NativeFn{name: "noop", fn: func(in *Interp, a []Value) Value { return zeroResult(sig) }}
				for _, arg := range call.Args {
					args = append(args, fr.get(arg))
				}
				return
			}
			in.rtPanic("invalid memory address or nil pointer dereference (method call on nil interface)")
		}
		if no, ok := recv.V.(*NativeObj); ok {
			fn = &NativeFn{name: no.kind + "." + call.Method.Name(), recv: no}
		} else {
			f := in.lookupMethod(recv.T, call.Method)
			if f == nil {
				panic(fmt.Sprintf("method set for dynamic type %v does not contain %s", recv.T, call.Method))
			}
			fn = f
			args = append(args, recv.V)
		}
	}
	for _, arg := range call.Args {
		args = append(args, fr.get(arg))
	}
	return
}

func (in *Interp) call(caller *frame, pos token.Pos, fn Value, args []Value) Value {
	switch fn := fn.(type) {
	case *ssa.Function:
		if fn == nil {
			in.rtPanic("call of nil function")
		}
		return in.callSSA(caller, pos, fn, args, nil)
	case *Closure:
		if fn == nil {
			in.rtPanic("call of nil function")
		}
		return in.callSSA(caller, pos, fn.Fn, args, fn.Env)
	case *ssa.Builtin:
		return in.callBuiltin(caller, pos, fn, args)
	case *NativeFn:
		return in.callNativeObj(caller, fn, args)
	}
	panic(fmt.Sprintf("cannot call %T", fn))
}

func (in *Interp) callSSA(caller *frame, pos token.Pos, fn *ssa.Function, args []Value, env []Value) Value {
	if r, ok := in.replace[fn.String()]; ok && (caller == nil || caller.fn != r) && (in.ex.fixed == nil || in.replaceAlways[fn.String()]) {
		in.ex.stats.Stubs["replaced: "+fn.String()+" -> "+r.String()] = true
		fn = r
	}
	fr := &frame{in: in, caller: caller, fn: fn}
	if caller != nil && fn.Synthetic == "package initializer" {
		return nil // imports are initialised lazily on first use
	}
	if strings.HasPrefix(fn.Name(), "init#") && fn.Pkg != nil && in.skipUserInit[fn.Pkg.Pkg.Path()] {
		in.ex.stats.Stubs["skipped user init(): "+fn.Pkg.Pkg.Path()] = true
		return nil
	}
	if h, ok := in.intrinsic(fn); ok {
		return h(in, fr, args)
	}
	if fn.Pkg != nil {
		if in.isNoop(fn.Pkg) {
			in.ex.stats.Stubs["no-op package: "+fn.Pkg.Pkg.Path()] = true
			return zeroResult(fn.Signature)
		}
	} else if o := fn.Origin(); o != nil && o.Pkg != nil && in.isNoop(o.Pkg) {
		return zeroResult(fn.Signature)
	} else if fn.Parent() == nil && fn.Object() != nil && fn.Object().Pkg() != nil && in.noopPkgs[fn.Object().Pkg().Path()] {
		return zeroResult(fn.Signature)
	}
	if fn.Pkg != nil && !in.pkgBuilt[fn.Pkg] {
		// Build() is once-guarded and returns only when the package is completely built: never look
		// at fn.Blocks of a package another worker may still be building
		fn.Pkg.Build()
		in.pkgBuilt[fn.Pkg] = true
	}
	if fn.Blocks == nil {
		if fn.Blocks == nil {
			unsup("no code for function %s", fn)
		}
	}
	if fn.TypeParams().Len() > 0 && len(fn.TypeArgs()) == 0 {
		unsup("uninstantiated generic %s", fn)
	}
	if fn.Pkg != nil {
		in.ensureInit(fn.Pkg)
	}
	in.ex.stats.Funcs[fn.String()] = true
	if in.trace {
		fmt.Fprintf(os.Stderr, "%s> %s\n", strings.Repeat(" ", depthOf(caller)), fn)
	}
	fr.env = make(map[ssa.Value]Value, 16)
	fr.block = fn.Blocks[0]
	fr.locals = make([]Value, len(fn.Locals))
	for i, l := range fn.Locals {
		fr.locals[i] = zero(deref(l.Type()))
		fr.env[l] = &fr.locals[i]
	}
	for i, p := range fn.Params {
		fr.env[p] = args[i]
	}
	for i, fv := range fn.FreeVars {
		fr.env[fv] = env[i]
	}
	for fr.block != nil {
		in.runFrame(fr)
	}
	return fr.result
}

func depthOf(fr *frame) int {
	d := 0
	for ; fr != nil; fr = fr.caller {
		d++
	}
	return d
}

func zeroResult(sig *types.Signature) Value {
	res := sig.Results()
	switch res.Len() {
	case 0:
		return nil
	case 1:
		return zero(res.At(0).Type())
	}
	t := make(Tuple, res.Len())
	for i := range t {
		t[i] = zero(res.At(i).Type())
	}
	return t
}

func (in *Interp) runFrame(fr *frame) {
	defer func() {
		if fr.block == nil {
			return
		}
		r := recover()
		if isEngineAbort(r) {
			if _, isU := r.(unsupported); !isU {
				if _, isP := r.(pathEnd); !isP {
					if _, isA := r.(abortG); !isA {
						// engine bug: annotate once
						if _, already := r.(enginePanic); !already {
							pos := ""
							if fr.cur != nil {
								pos = fmt.Sprintf(" at %s: %v", in.prog.Fset.Position(fr.cur.Pos()), fr.cur)
							}
							r = enginePanic{fmt.Sprintf("engine panic in %s%s: %v", fr.fn, pos, r), string(debug.Stack())}
						}
						panic(r)
					}
				}
			}
			panic(r)
		}
		fr.panicking = true
		fr.panicVal = r
		fr.runDefers()
		fr.block = fr.fn.Recover
		if fr.block == nil {
			// recovered, no named results: return zero values
			fr.result = zeroResult(fr.fn.Signature)
		}
	}()
	for {
		nonPhis := in.executePhis(fr)
		for _, instr := range nonPhis {
			fr.cur = instr
			if in.visitInstr(fr, instr) == kReturn {
				return
			}
		}
	}
}

func (in *Interp) executePhis(fr *frame) []ssa.Instruction {
	firstNonPhi := -1
	for i, instr := range fr.block.Instrs {
		if _, ok := instr.(*ssa.Phi); !ok {
			firstNonPhi = i
			break
		}
	}
	nonPhis := fr.block.Instrs[firstNonPhi:]
	if firstNonPhi > 0 {
		phis := fr.block.Instrs[:firstNonPhi]
		predIndex := -1
		for i, p := range fr.block.Preds {
			if p == fr.prevBlock {
				predIndex = i
				break
			}
		}
		fr.phitemps = fr.phitemps[:0]
		if fr.mergeCond != nil {
			ti, fi := -1, -1
			for i, p := range fr.block.Preds {
				if p == fr.mergeT {
					ti = i
				}
				if p == fr.mergeF {
					fi = i
				}
			}
			for _, phi := range phis {
				a := fr.get(phi.(*ssa.Phi).Edges[ti]).(*Term)
				b := fr.get(phi.(*ssa.Phi).Edges[fi]).(*Term)
				fr.phitemps = append(fr.phitemps, Ite(fr.mergeCond, a, b))
			}
			fr.mergeCond = nil
		} else {
			for _, phi := range phis {
				fr.phitemps = append(fr.phitemps, fr.get(phi.(*ssa.Phi).Edges[predIndex]))
			}
		}
		for i, phi := range phis {
			fr.env[phi.(*ssa.Phi)] = fr.phitemps[i]
		}
	}
	return nonPhis
}

func (in *Interp) doRecover(caller *frame) Value {
	if caller != nil && !caller.panicking && caller.caller != nil && caller.caller.panicking {
		caller.caller.panicking = false
		p := caller.caller.panicVal
		caller.caller.panicVal = nil
		switch p := p.(type) {
		case targetPanic:
			return p.v
		default:
			panic(fmt.Sprintf("unexpected panic type %T in recover()", p))
		}
	}
	return Iface{}
}

func (in *Interp) typeAssert(instr *ssa.TypeAssert, itf Iface) Value {
	var v Value
	errMsg := ""
	if itf.T == nil {
		errMsg = fmt.Sprintf("interface conversion: interface is nil, not %s", instr.AssertedType)
	} else if idst, ok := instr.AssertedType.Underlying().(*types.Interface); ok {
		v = itf
		if _, isNative := itf.V.(*NativeObj); isNative {
			// native objects implement whatever they are used as
		} else if meth, _ := types.MissingMethod(itf.T, idst, true); meth != nil {
			errMsg = fmt.Sprintf("interface conversion: %v is not %v: missing method %s", itf.T, idst, meth.Name())
		}
	} else if types.Identical(itf.T, instr.AssertedType) {
		v = itf.V
	} else {
		errMsg = fmt.Sprintf("interface conversion: interface is %s, not %s", itf.T, instr.AssertedType)
	}
	if errMsg != "" {
		if !instr.CommaOk {
			panic(targetPanic{in.runtimeError(errMsg)})
		}
		return Tuple{zero(instr.AssertedType), False}
	}
	if instr.CommaOk {
		return Tuple{v, True}
	}
	return v
}

// ---- builtins ----

func (in *Interp) callBuiltin(caller *frame, pos token.Pos, fn *ssa.Builtin, args []Value) Value {
	switch fn.Name() {
	case "append":
		if len(args) == 1 {
			return args[0]
		}
		dst := args[0].(Slice)
		var add []Value
		switch src := args[1].(type) {
		case string, *SymStr:
			for _, b := range strBytes(src) {
				add = append(add, b)
			}
		case Slice:
			for _, e := range src.elems() {
				add = append(add, copyVal(e))
			}
		}
		var elemZero Value = BV(8, 0)
		if st, ok := fn.Type().(*types.Signature); ok && st.Params().Len() > 0 {
			if sl, ok := st.Params().At(0).Type().Underlying().(*types.Slice); ok {
				elemZero = zero(sl.Elem())
			}
		}
		return appendVals(dst, add, elemZero)
	case "copy":
		dst := args[0].(Slice)
		var src []Value
		switch s := args[1].(type) {
		case string, *SymStr:
			for _, b := range strBytes(s) {
				src = append(src, b)
			}
		case Slice:
			src = append(src, s.elems()...) // snapshot (overlap-safe)
		}
		n := dst.len
		if len(src) < n {
			n = len(src)
		}
		for i := 0; i < n; i++ {
			store(dst.at(i), src[i])
		}
		return BV(64, uint64(n))
	case "close":
		in.chanClose(args[0].(*Chan))
		return nil
	case "delete":
		m := args[0].(*Map)
		if m != nil {
			in.mapDelete(m, args[1])
		}
		return nil
	case "print", "println":
		return nil
	case "SliceData": // unsafe.SliceData: only as the argument of unsafe.String (zero-copy []byte -> string)
		return UPtr{p: args[0]}
	case "StringData":
		return UPtr{p: args[0]}
	case "String": // unsafe.String(unsafe.SliceData(b), n)
		if up, ok := args[0].(UPtr); ok {
			n, okn := args[1].(*Term)
			if sl, oks := up.p.(Slice); oks && okn && n.op == OpConst {
				if int(n.c) == 0 {
					return ""
				}
				return mkStr(bytesOfSlice(Slice{arr: sl.arr, off: sl.off, len: int(n.c), cap: sl.cap, opq: sl.opq}))
			}
		}
		if p, ok := args[0].(*Value); ok {
			if p == nil {
				return ""
			}
			// unsafe.String(&b[0], len(b)): p points at an element of a backing []Value; the n cells
			// from there on are the bytes
			if n, okn := args[1].(*Term); okn && n.op == OpConst {
				cells := unsafe.Slice(p, int(n.c))
				bs := make([]*Term, len(cells))
				for i, c := range cells {
					t, isT := c.(*Term)
					if !isT {
						unsup("unsafe.String over non-byte cells")
					}
					bs[i] = t
				}
				return mkStr(bs)
			}
		}
		unsup("unsafe.String of %T", args[0])
	case "Slice": // unsafe.Slice(unsafe.StringData(s), n)
		if up, ok := args[0].(UPtr); ok {
			n, okn := args[1].(*Term)
			if okn && n.op == OpConst {
				switch sv := up.p.(type) {
				case string, *SymStr:
					return sliceOfBytes(strBytes(sv)[:int(n.c)])
				}
			}
		}
		unsup("unsafe.Slice of %T", args[0])
	case "len":
		switch x := args[0].(type) {
		case string, *SymStr:
			return BV(64, uint64(strLen(x)))
		case Array:
			return BV(64, uint64(len(x)))
		case *Value:
			return BV(64, uint64(len((*x).(Array))))
		case Slice:
			x.chkOpq()
			return BV(64, uint64(x.len))
		case *Map:
			if x == nil {
				return BV(64, 0)
			}
			return BV(64, uint64(x.nlive))
		case *Chan:
			if x == nil {
				return BV(64, 0)
			}
			return BV(64, uint64(len(x.buf)))
		}
		unsup("len of %T", args[0])
	case "cap":
		switch x := args[0].(type) {
		case Array:
			return BV(64, uint64(len(x)))
		case *Value:
			return BV(64, uint64(len((*x).(Array))))
		case Slice:
			return BV(64, uint64(x.cap))
		case *Chan:
			if x == nil {
				return BV(64, 0)
			}
			return BV(64, uint64(x.cap))
		}
		unsup("cap of %T", args[0])
	case "min", "max":
		t := fn.Type().(*types.Signature).Params().At(0).Type()
		r := args[0]
		for _, a := range args[1:] {
			var lt Value
			if fn.Name() == "min" {
				lt = in.binop(token.LSS, t, a, r)
			} else {
				lt = in.binop(token.GTR, t, a, r)
			}
			rt, ok1 := r.(*Term)
			at, ok2 := a.(*Term)
			if !ok1 || !ok2 {
				unsup("min/max on %T", r)
			}
			r = Ite(lt.(*Term), at, rt)
		}
		return r
	case "panic":
		panic(targetPanic{args[0]})
	case "recover":
		return in.doRecover(caller)
	case "ssa:wrapnilchk":
		recv := args[0]
		if p, ok := recv.(*Value); ok && p == nil {
			in.rtPanic("value method called using nil pointer")
		}
		return recv
	case "ssa:deferstack":
		return &caller.defers
	case "clear":
		switch x := args[0].(type) {
		case *Map:
			if x != nil {
				x.entries, x.idx, x.nlive, x.nsym = nil, map[interface{}]int{}, 0, 0
			}
		case Slice:
			unsup("clear(slice)")
		}
		return nil
	}
	unsup("built-in %s", fn.Name())
	return nil
}

// ---- range iterators ----

type iter interface{ next() Tuple }

type stringIter struct {
	in *Interp
	b  []*Term
	i  int
}

func (it *stringIter) next() Tuple {
	if it.i >= len(it.b) {
		return Tuple{False, BV(64, 0), BV(32, 0)}
	}
	start := it.i
	r, size := it.in.decodeRune(it.b[it.i:])
	it.i += size
	return Tuple{True, BV(64, uint64(start)), r}
}

// decodeRune implements utf8.DecodeRune on symbolic bytes, forking on the
// lead byte class (sizes must be concrete).
func (in *Interp) decodeRune(b []*Term) (*Term, int) {
	b0 := b[0]
	ex := in.ex
	z32 := func(t *Term) *Term { return ZExt(t, 32) }
	const RuneError = 0xFFFD
	if b0.op == OpConst && b0.c < 0x80 {
		return z32(b0), 1
	}
	inRange := func(t *Term, lo, hi uint64) *Term {
		return BAnd(Ule(BV(8, lo), t), Ule(t, BV(8, hi)))
	}
	cont := func(t *Term) *Term { return inRange(t, 0x80, 0xBF) }
	// one decision per size class (sizes must be concrete); invalid sequences have size 1
	if len(b) >= 2 {
		v2 := BAnd(inRange(b0, 0xC2, 0xDF), cont(b[1]))
		if ex.branch(v2) {
			r := Or(Shl(And(z32(b0), BV(32, 0x1F)), BV(32, 6)), And(z32(b[1]), BV(32, 0x3F)))
			return r, 2
		}
	}
	if len(b) >= 3 {
		ok1 := Ite(Eq(b0, BV(8, 0xE0)), inRange(b[1], 0xA0, 0xBF),
			Ite(Eq(b0, BV(8, 0xED)), inRange(b[1], 0x80, 0x9F), cont(b[1])))
		v3 := BAnd(inRange(b0, 0xE0, 0xEF), BAnd(ok1, cont(b[2])))
		if ex.branch(v3) {
			r := Or(Or(Shl(And(z32(b0), BV(32, 0x0F)), BV(32, 12)), Shl(And(z32(b[1]), BV(32, 0x3F)), BV(32, 6))), And(z32(b[2]), BV(32, 0x3F)))
			return r, 3
		}
	}
	if len(b) >= 4 {
		ok1 := Ite(Eq(b0, BV(8, 0xF0)), inRange(b[1], 0x90, 0xBF),
			Ite(Eq(b0, BV(8, 0xF4)), inRange(b[1], 0x80, 0x8F), cont(b[1])))
		v4 := BAnd(inRange(b0, 0xF0, 0xF4), BAnd(BAnd(ok1, cont(b[2])), cont(b[3])))
		if ex.branch(v4) {
			r := Or(Or(Or(Shl(And(z32(b0), BV(32, 0x07)), BV(32, 18)), Shl(And(z32(b[1]), BV(32, 0x3F)), BV(32, 12))),
				Shl(And(z32(b[2]), BV(32, 0x3F)), BV(32, 6))), And(z32(b[3]), BV(32, 0x3F)))
			return r, 4
		}
	}
	// size 1: ASCII byte or RuneError
	return Ite(Ult(b0, BV(8, 0x80)), z32(b0), BV(32, RuneError)), 1
}

type mapIter struct {
	in    *Interp
	m     *Map
	order []int
	i     int
}

func (it *mapIter) next() Tuple {
	for it.i < len(it.order) {
		e := it.m.entries[it.order[it.i]]
		it.i++
		if e.deleted {
			continue
		}
		return Tuple{True, e.k, copyVal(e.v)}
	}
	return Tuple{False, nil, nil}
}

func (in *Interp) rangeIter(x Value, t types.Type) iter {
	switch x := x.(type) {
	case *Map:
		it := &mapIter{in: in, m: x}
		if x == nil {
			return it
		}
		var live []int
		for i, e := range x.entries {
			if !e.deleted {
				live = append(live, i)
			}
		}
		// iteration order is unspecified: a nondeterministic permutation when enabled
		if in.spec != nil && in.spec.MapOrder && len(live) > 1 && (in.spec.MapOrderBudget == 0 || in.ex.path.mapOrders < in.spec.MapOrderBudget) {
			in.ex.path.mapOrders++
			perm := make([]int, 0, len(live))
			rest := append([]int(nil), live...)
			for len(rest) > 1 {
				k := in.ex.choose(len(rest), "maporder")
				perm = append(perm, rest[k])
				rest = append(rest[:k], rest[k+1:]...)
			}
			perm = append(perm, rest[0])
			live = perm
		}
		it.order = live
		return it
	case string, *SymStr:
		return &stringIter{in: in, b: strBytes(x)}
	}
	unsup("range over %T", x)
	return nil
}

// ---- maps ----

func (in *Interp) mapFind(m *Map, key Value) *mapEntry {
	if m == nil {
		return nil
	}
	if ck, ok := concreteKey(key); ok {
		if i, ok := m.idx[ck]; ok {
			e := m.entries[i]
			if !e.deleted {
				return e
			}
		}
		// symbolic keys present in the map may still alias
		if m.nsym == 0 {
			return nil
		}
		for _, e := range m.entries {
			if e.deleted {
				continue
			}
			if _, ok := concreteKey(e.k); ok {
				continue
			}
			if in.ex.branch(equals(e.k, key)) {
				return e
			}
		}
		return nil
	}
	for _, e := range m.entries {
		if e.deleted {
			continue
		}
		if in.ex.branch(equals(e.k, key)) {
			return e
		}
	}
	return nil
}

func (in *Interp) mapInsert(m *Map, key, val Value) {
	if e := in.mapFind(m, key); e != nil {
		e.v = copyVal(val)
		return
	}
	e := &mapEntry{k: copyVal(key), v: copyVal(val)}
	m.entries = append(m.entries, e)
	m.nlive++
	if ck, ok := concreteKey(key); ok {
		m.idx[ck] = len(m.entries) - 1
	} else {
		m.nsym++
	}
}

func (in *Interp) mapDelete(m *Map, key Value) {
	if e := in.mapFind(m, key); e != nil {
		e.deleted = true
		m.nlive--
		if ck, ok := concreteKey(e.k); ok {
			delete(m.idx, ck)
		} else {
			m.nsym--
		}
	}
}

func (in *Interp) lookup(instr *ssa.Lookup, x, idx Value) Value {
	switch x := x.(type) {
	case *Map:
		e := in.mapFind(x, idx)
		var v Value
		ok := e != nil
		if ok {
			v = copyVal(e.v)
		} else {
			v = zero(instr.X.Type().Underlying().(*types.Map).Elem())
		}
		if instr.CommaOk {
			return Tuple{v, Bool(ok)}
		}
		return v
	case string, *SymStr:
		return in.index(x, idx.(*Term), instr.Index.Type())
	}
	unsup("lookup on %T", x)
	return nil
}
