package main

// Native models of library functions and the harness intrinsics (verif*).

import (
	"reflect"
	"encoding/json"
	"fmt"
	"math"
	"sync"
	"go/types"
	"strconv"
	"strings"

	"golang.org/x/tools/go/ssa"
)

type intrinsicFn func(in *Interp, fr *frame, args []Value) Value

var intrinsics = map[string]intrinsicFn{}

func (in *Interp) intrinsic(fn *ssa.Function) (intrinsicFn, bool) {
	name := fn.Name()
	if strings.HasPrefix(name, "verif") && fn.Parent() == nil {
		if h, ok := verifIntrinsics[name]; ok {
			return h, true
		}
	}
	key := fn.String()
	if o := fn.Origin(); o != nil {
		key = o.String()
	}
	if in.modPath != "" && strings.HasPrefix(key, in.modPath+"/") {
		if h, ok := repoIntrinsics[key[len(in.modPath):]]; ok {
			in.ex.stats.Stubs["native model: "+key] = true
			return h, true
		}
	}
	h, ok := intrinsics[key]
	if !ok {
		h, ok = lateIntrinsics[key]
	}
	if !ok && (strings.HasPrefix(key, "(time.Time).") || strings.HasPrefix(key, "(*time.Time).")) {
		name := key
		return func(in *Interp, fr *frame, args []Value) Value {
			unsup("%s on the engine's clock model", name)
			return nil
		}, true
	}
	if ok {
		in.ex.stats.Stubs["native model: "+key] = true
	}
	return h, ok
}

func argStr(v Value) string {
	s, ok := v.(string)
	if !ok {
		unsup("intrinsic needs a concrete string argument, got %s", fmtValue(v))
	}
	return s
}

func argInt(in *Interp, v Value) int {
	t := v.(*Term)
	return int(int64(in.ex.concretize(t, "intrinsic int arg")))
}

var verifIntrinsics = map[string]intrinsicFn{}
var repoIntrinsics = map[string]intrinsicFn{}

func init() {
	nondet := func(w uint8) intrinsicFn {
		return func(in *Interp, fr *frame, args []Value) Value {
			return in.ex.fresh(argStr(args[0]), w)
		}
	}
	for k, v := range map[string]intrinsicFn{
		"verifU8":  nondet(8),
		"verifU16": nondet(16),
		"verifU32": nondet(32),
		"verifU64": nondet(64),
		"verifI8":  nondet(8),
		"verifI16": nondet(16),
		"verifI32": nondet(32),
		"verifI64": nondet(64),
		"verifInt": nondet(64),
		"verifBool": func(in *Interp, fr *frame, args []Value) Value {
			v := in.ex.fresh(argStr(args[0]), 8)
			return Ne(v, BV(8, 0))
		},
		"verifBytes": func(in *Interp, fr *frame, args []Value) Value {
			name := argStr(args[0])
			n := argInt(in, args[1])
			b := make([]*Term, n)
			for i := range b {
				b[i] = in.ex.fresh(name, 8)
			}
			return sliceOfBytes(b)
		},
		"verifStr": func(in *Interp, fr *frame, args []Value) Value {
			name := argStr(args[0])
			n := argInt(in, args[1])
			b := make([]*Term, n)
			for i := range b {
				b[i] = in.ex.fresh(name, 8)
			}
			return mkStr(b)
		},
		"verifRange": func(in *Interp, fr *frame, args []Value) Value {
			name := argStr(args[0])
			lo, hi := argInt(in, args[1]), argInt(in, args[2])
			if hi < lo {
				panic(pathEnd{"assume", "empty range"})
			}
			if v, ok := in.ex.nextFixed(name); ok {
				return BV(64, v)
			}
			k := in.ex.choose(hi-lo+1, name)
			p := in.ex.path
			p.nondet = append(p.nondet, nondetRec{Name: name, Kind: "choice", V: int64(lo + k)})
			return BV(64, uint64(int64(lo+k)))
		},
		"verifChoose": func(in *Interp, fr *frame, args []Value) Value {
			name := argStr(args[0])
			n := argInt(in, args[1])
			if v, ok := in.ex.nextFixed(name); ok {
				return BV(64, v)
			}
			k := in.ex.choose(n, name)
			p := in.ex.path
			p.nondet = append(p.nondet, nondetRec{Name: name, Kind: "choice", V: int64(k)})
			return BV(64, uint64(k))
		},
		"verifAssume": func(in *Interp, fr *frame, args []Value) Value {
			in.ex.assume(args[0].(*Term))
			return nil
		},
		"verifAssert": func(in *Interp, fr *frame, args []Value) Value {
			in.ex.assert(args[0].(*Term), argStr(args[1]), "")
			return nil
		},
		"verifReach": func(in *Interp, fr *frame, args []Value) Value {
			in.ex.stats.Reach[argStr(args[0])]++
			return nil
		},
		"verifCover": func(in *Interp, fr *frame, args []Value) Value {
			in.ex.cover(args[0].(*Term), argStr(args[1]))
			return nil
		},
		"verifNote": func(in *Interp, fr *frame, args []Value) Value {
			p := in.ex.path
			if len(p.notes) < 64 {
				p.notes = append(p.notes, argStr(args[0]))
			}
			return nil
		},
		// verifUnsupported: the harness's environment model cannot answer what the code under test just did;
		// the path is inconclusive (never a violation, never a pass)
		"verifUnsupported": func(in *Interp, fr *frame, args []Value) Value {
			panic(pathEnd{"unsupported", "harness model: " + argStr(args[0])})
		},
		"verifSymbolic": func(in *Interp, fr *frame, args []Value) Value { return Bool(in.ex.fixed == nil) },
		// verifConcInt forks over the feasible values of an int (bounded)
		"verifConcInt": func(in *Interp, fr *frame, args []Value) Value {
			t := args[0].(*Term)
			return BV(t.w, in.ex.concretize(t, "verifConcInt"))
		},
		"verifEnvTicker": func(in *Interp, fr *frame, args []Value) Value {
			return &Chan{id: in.sched.nextChanID(), env: "ticker"}
		},
		"verifEnvDone": func(in *Interp, fr *frame, args []Value) Value {
			return &Chan{id: in.sched.nextChanID(), env: "done"}
		},
		"verifItoa": func(in *Interp, fr *frame, args []Value) Value {
			return fmtInt(args[0].(*Term), true)
		},
		"verifYield": func(in *Interp, fr *frame, args []Value) Value {
			in.sched.maybePreempt()
			return nil
		},
		// verifSettle: every other goroutine runs until it blocks or ends (quiescence)
		"verifSettle": func(in *Interp, fr *frame, args []Value) Value {
			in.sched.othersFirst()
			return nil
		},
	} {
		verifIntrinsics[k] = v
	}

	reg := func(name string, f intrinsicFn) { intrinsics[name] = f }

	// --- strings / bytes kernels ---
	reg("internal/bytealg.IndexByteString", func(in *Interp, fr *frame, args []Value) Value {
		return in.indexByte(strBytes(args[0]), args[1].(*Term))
	})
	reg("internal/bytealg.IndexByte", func(in *Interp, fr *frame, args []Value) Value {
		return in.indexByte(bytesOfSlice(args[0].(Slice)), args[1].(*Term))
	})
	reg("strings.IndexByte", intrinsics["internal/bytealg.IndexByteString"])
	reg("bytes.IndexByte", intrinsics["internal/bytealg.IndexByte"])
	reg("internal/bytealg.Equal", func(in *Interp, fr *frame, args []Value) Value {
		a, b := args[0].(Slice), args[1].(Slice)
		if a.opq != nil || b.opq != nil {
			return strEq(sliceAsStr(a), sliceAsStr(b))
		}
		return bytesEq(bytesOfSlice(a), bytesOfSlice(b))
	})
	reg("bytes.Equal", intrinsics["internal/bytealg.Equal"])
	reg("internal/bytealg.MakeNoZero", func(in *Interp, fr *frame, args []Value) Value {
		n := argInt(in, args[0])
		return newSlice(n, n, types.Typ[types.Byte])
	})
	reg("internal/bytealg.CountString", func(in *Interp, fr *frame, args []Value) Value {
		b := strBytes(args[0])
		c := args[1].(*Term)
		n := BV(64, 0)
		for _, x := range b {
			n = Add(n, Ite(Eq(x, c), BV(64, 1), BV(64, 0)))
		}
		return n
	})
	reg("internal/bytealg.Count", func(in *Interp, fr *frame, args []Value) Value {
		b := bytesOfSlice(args[0].(Slice))
		c := args[1].(*Term)
		n := BV(64, 0)
		for _, x := range b {
			n = Add(n, Ite(Eq(x, c), BV(64, 1), BV(64, 0)))
		}
		return n
	})
	reg("strings.HasPrefix", func(in *Interp, fr *frame, args []Value) Value {
		return hasPrefix(strBytes(args[0]), strBytes(args[1]))
	})
	reg("internal/stringslite.HasPrefix", intrinsics["strings.HasPrefix"])
	reg("strings.HasSuffix", func(in *Interp, fr *frame, args []Value) Value {
		return hasSuffix(strBytes(args[0]), strBytes(args[1]))
	})
	reg("internal/stringslite.HasSuffix", intrinsics["strings.HasSuffix"])
	reg("bytes.HasPrefix", func(in *Interp, fr *frame, args []Value) Value {
		return hasPrefix(bytesOfSlice(args[0].(Slice)), bytesOfSlice(args[1].(Slice)))
	})
	reg("bytes.HasSuffix", func(in *Interp, fr *frame, args []Value) Value {
		return hasSuffix(bytesOfSlice(args[0].(Slice)), bytesOfSlice(args[1].(Slice)))
	})
	reg("strings.Index", func(in *Interp, fr *frame, args []Value) Value {
		return in.indexSub(strBytes(args[0]), strBytes(args[1]))
	})
	reg("internal/stringslite.Index", intrinsics["strings.Index"])
	reg("internal/bytealg.IndexString", intrinsics["strings.Index"])
	reg("bytes.Index", func(in *Interp, fr *frame, args []Value) Value {
		return in.indexSub(bytesOfSlice(args[0].(Slice)), bytesOfSlice(args[1].(Slice)))
	})
	reg("strings.Contains", func(in *Interp, fr *frame, args []Value) Value {
		i := in.indexSub(strBytes(args[0]), strBytes(args[1]))
		return Sle(BV(64, 0), i)
	})
	reg("strings.EqualFold", func(in *Interp, fr *frame, args []Value) Value {
		a, b := strBytes(args[0]), strBytes(args[1])
		return equalFoldASCII(in, a, b)
	})
	reg("strings.ToLower", func(in *Interp, fr *frame, args []Value) Value {
		return mapASCII(in, args[0], 'A', 'Z', 32)
	})
	reg("strings.ToUpper", func(in *Interp, fr *frame, args []Value) Value {
		return mapASCII(in, args[0], 'a', 'z', ^uint64(31))
	})
	reg("strings.Clone", func(in *Interp, fr *frame, args []Value) Value { return args[0] })
	reg("internal/stringslite.Clone", func(in *Interp, fr *frame, args []Value) Value { return args[0] })
	reg("bytes.Clone", func(in *Interp, fr *frame, args []Value) Value {
		s := args[0].(Slice)
		if s.isNil() {
			return Slice{}
		}
		return sliceOfBytes(bytesOfSlice(s))
	})

	// --- strconv (opaque-aware) ---
	reg("strconv.Itoa", func(in *Interp, fr *frame, args []Value) Value { return fmtInt(args[0].(*Term), true) })
	reg("strconv.FormatInt", func(in *Interp, fr *frame, args []Value) Value {
		base := argInt(in, args[1])
		if base != 10 {
			t := args[0].(*Term)
			if t.op != OpConst {
				unsup("FormatInt base %d of symbolic value", base)
			}
			return strconv.FormatInt(int64(t.c), base)
		}
		return fmtInt(args[0].(*Term), true)
	})
	reg("strconv.FormatUint", func(in *Interp, fr *frame, args []Value) Value {
		base := argInt(in, args[1])
		if base != 10 {
			t := args[0].(*Term)
			if t.op != OpConst {
				unsup("FormatUint base %d of symbolic value", base)
			}
			return strconv.FormatUint(t.c, base)
		}
		return fmtInt(args[0].(*Term), false)
	})
	reg("strconv.AppendInt", func(in *Interp, fr *frame, args []Value) Value {
		t := args[1].(*Term)
		if t.op != OpConst {
			unsup("AppendInt of symbolic value")
		}
		s := strconv.FormatInt(int64(t.c), argInt(in, args[2]))
		return in.appendBytes(args[0].(Slice), s)
	})
	reg("strconv.AppendUint", func(in *Interp, fr *frame, args []Value) Value {
		t := args[1].(*Term)
		if t.op != OpConst {
			unsup("AppendUint of symbolic value")
		}
		s := strconv.FormatUint(t.c, argInt(in, args[2]))
		return in.appendBytes(args[0].(Slice), s)
	})
	reg("strconv.Atoi", func(in *Interp, fr *frame, args []Value) Value {
		return in.parseInt(args[0], 10, 64, true, "Atoi")
	})
	reg("strconv.ParseInt", func(in *Interp, fr *frame, args []Value) Value {
		bs := argInt(in, args[2])
		if bs == 0 {
			bs = 64
		}
		return in.parseInt(args[0], argInt(in, args[1]), bs, true, "ParseInt")
	})
	reg("strconv.ParseUint", func(in *Interp, fr *frame, args []Value) Value {
		bs := argInt(in, args[2])
		if bs == 0 {
			bs = 64
		}
		return in.parseInt(args[0], argInt(in, args[1]), bs, false, "ParseUint")
	})
	reg("strconv.ParseFloat", func(in *Interp, fr *frame, args []Value) Value {
		s, ok := args[0].(string)
		if !ok {
			unsup("ParseFloat of symbolic string")
		}
		f, err := strconv.ParseFloat(s, argInt(in, args[1]))
		if err != nil {
			return Tuple{f, in.mkError("strconv.ParseFloat: parsing " + strconv.Quote(s) + ": invalid syntax")}
		}
		return Tuple{f, Iface{}}
	})
	reg("strconv.FormatFloat", func(in *Interp, fr *frame, args []Value) Value {
		f, ok := args[0].(float64)
		if !ok {
			unsup("FormatFloat of symbolic float")
		}
		fm := args[1].(*Term)
		return strconv.FormatFloat(f, byte(fm.c), argInt(in, args[2]), argInt(in, args[3]))
	})
	reg("strconv.Quote", func(in *Interp, fr *frame, args []Value) Value {
		if s, ok := args[0].(string); ok {
			return strconv.Quote(s)
		}
		return "<quoted-symbolic>"
	})

	// --- sort.Slice / sort.SliceStable: the real ones swap through reflection; stable insertion sort
	// calling the real less closure (a symbolic comparison result forks the path) ---
	sortSlice := func(in *Interp, fr *frame, args []Value) Value {
		sl := args[0].(Iface).V.(Slice)
		less := args[1]
		n := sl.len
		for i := 1; i < n; i++ {
			for j := i; j > 0; j-- {
				r := in.call(fr, 0, less, []Value{BV(64, uint64(j)), BV(64, uint64(j-1))}).(*Term)
				if !in.ex.branch(r) {
					break
				}
				a, b := sl.at(j), sl.at(j-1)
				*a, *b = *b, *a
			}
		}
		return nil
	}
	reg("sort.Slice", sortSlice)
	reg("sort.SliceStable", sortSlice)

	// --- errors / fmt ---
	reg("errors.New", func(in *Interp, fr *frame, args []Value) Value { return in.mkErrorV(args[0]) })
	reg("fmt.Errorf", func(in *Interp, fr *frame, args []Value) Value {
		return in.fmtErrorf(args[0], args[1].(Slice))
	})
	reg("fmt.Sprintf", func(in *Interp, fr *frame, args []Value) Value {
		return in.sprintf(args[0], args[1].(Slice).elems())
	})
	reg("fmt.Sprint", func(in *Interp, fr *frame, args []Value) Value {
		var out Value = ""
		for _, a := range args[0].(Slice).elems() {
			out = in.binop(tokenADD, types.Typ[types.String], out, in.fmtArg('v', "", a))
		}
		return out
	})
	for _, n := range []string{"fmt.Println", "fmt.Printf", "fmt.Print", "fmt.Fprintf", "fmt.Fprintln", "fmt.Fprint"} {
		name := n
		reg(name, func(in *Interp, fr *frame, args []Value) Value {
			return Tuple{BV(64, 0), Iface{}}
		})
	}
	reg("errors.Is", func(in *Interp, fr *frame, args []Value) Value {
		return in.errorsIs(fr, args[0].(Iface), args[1].(Iface))
	})
	reg("errors.As", func(in *Interp, fr *frame, args []Value) Value {
		return in.errorsAs(fr, args[0].(Iface), args[1].(Iface))
	})
	reg("errors.Unwrap", func(in *Interp, fr *frame, args []Value) Value {
		return in.errUnwrap(fr, args[0].(Iface))
	})

	// --- sync ---
	lockState := func(m Value) *Value {
		p := m.(*Value)
		return &(*p).(Struct)[0]
	}
	mutexLock := func(in *Interp, fr *frame, args []Value) Value {
		st := lockState(args[0])
		in.sched.maybePreempt()
		isFree := func() bool { return (*st).(*Term).c == 0 }
		if !isFree() {
			in.sched.block(isFree, "mutex")
		}
		*st = BV(32, 1)
		return nil
	}
	mutexUnlock := func(in *Interp, fr *frame, args []Value) Value {
		st := lockState(args[0])
		if (*st).(*Term).c == 0 {
			panic(targetPanic{in.runtimeError("sync: unlock of unlocked mutex")})
		}
		*st = BV(32, 0)
		return nil
	}
	reg("(*sync.Mutex).Lock", mutexLock)
	reg("(*sync.Mutex).Unlock", mutexUnlock)
	reg("(*sync.Mutex).TryLock", func(in *Interp, fr *frame, args []Value) Value {
		st := lockState(args[0])
		if (*st).(*Term).c == 0 {
			*st = BV(32, 1)
			return True
		}
		return False
	})
	// RWMutex: field 0 is w Mutex (struct); we keep writer flag in w.state and reader count in readerCount (field 3? layout differs) -> use fields by name
	rwField := func(m Value, name string) *Value {
		p := m.(*Value)
		return structFieldByName(p, name)
	}
	reg("(*sync.RWMutex).Lock", func(in *Interp, fr *frame, args []Value) Value {
		w := rwField(args[0], "writerSem")
		r := rwField(args[0], "readerSem")
		in.sched.maybePreempt()
		free := func() bool { return (*w).(*Term).c == 0 && (*r).(*Term).c == 0 }
		if !free() {
			in.sched.block(free, "rwmutex.Lock")
		}
		*w = BV(32, 1)
		return nil
	})
	reg("(*sync.RWMutex).Unlock", func(in *Interp, fr *frame, args []Value) Value {
		*rwField(args[0], "writerSem") = BV(32, 0)
		return nil
	})
	reg("(*sync.RWMutex).RLock", func(in *Interp, fr *frame, args []Value) Value {
		w := rwField(args[0], "writerSem")
		r := rwField(args[0], "readerSem")
		in.sched.maybePreempt()
		free := func() bool { return (*w).(*Term).c == 0 }
		if !free() {
			in.sched.block(free, "rwmutex.RLock")
		}
		*r = BV(32, (*r).(*Term).c+1)
		return nil
	})
	reg("(*sync.RWMutex).RUnlock", func(in *Interp, fr *frame, args []Value) Value {
		r := rwField(args[0], "readerSem")
		*r = BV(32, (*r).(*Term).c-1)
		return nil
	})
	reg("(*sync.WaitGroup).Add", func(in *Interp, fr *frame, args []Value) Value {
		c := structFieldByName(args[0].(*Value), "sema")
		d := args[1].(*Term)
		*c = BV(32, (*c).(*Term).c+d.c)
		return nil
	})
	reg("(*sync.WaitGroup).Done", func(in *Interp, fr *frame, args []Value) Value {
		c := structFieldByName(args[0].(*Value), "sema")
		*c = BV(32, (*c).(*Term).c-1)
		return nil
	})
	reg("(*sync.WaitGroup).Wait", func(in *Interp, fr *frame, args []Value) Value {
		c := structFieldByName(args[0].(*Value), "sema")
		zero := func() bool { return (*c).(*Term).c == 0 }
		if !zero() {
			in.sched.block(zero, "waitgroup")
		}
		return nil
	})
	reg("(*sync.Once).Do", func(in *Interp, fr *frame, args []Value) Value {
		d := structFieldByName(args[0].(*Value), "done")
		var isDone bool
		switch v := (*d).(type) {
		case *Term:
			isDone = v.c != 0
		case Struct: // atomic.Uint32{_ noCopy; v uint32}
			isDone = v[len(v)-1].(*Term).c != 0
		}
		if !isDone {
			switch v := (*d).(type) {
			case *Term:
				*d = BV(v.w, 1)
			case Struct:
				v[len(v)-1] = BV(32, 1)
			}
			in.call(fr, 0, args[1], nil)
		}
		return nil
	})
	reg("(*sync.Cond).Wait", func(in *Interp, fr *frame, args []Value) Value {
		// c.L.Unlock(); wait for signal; c.L.Lock()
		cp := args[0].(*Value)
		L := (*structFieldByName(cp, "L")).(Iface)
		seqCell := structFieldByName(cp, "checker") // reuse a uintptr-typed field as a signal counter
		seq := (*seqCell).(*Term).c
		in.invokeMethod(fr, L, "Unlock")
		in.sched.block(func() bool { return (*seqCell).(*Term).c != seq }, "cond.Wait")
		in.invokeMethod(fr, L, "Lock")
		return nil
	})
	condSignal := func(in *Interp, fr *frame, args []Value) Value {
		cp := args[0].(*Value)
		seqCell := structFieldByName(cp, "checker")
		*seqCell = BV(64, (*seqCell).(*Term).c+1)
		return nil
	}
	reg("(*sync.Cond).Signal", condSignal) // over-approximates: wakes all waiters (allowed: spurious wake-ups must be tolerated by Wait loops)
	reg("(*sync.Cond).Broadcast", condSignal)
	reg("sync.NewCond", func(in *Interp, fr *frame, args []Value) Value {
		ct := in.prog.ImportedPackage("sync").Type("Cond").Type()
		cell := new(Value)
		*cell = zero(ct)
		*structFieldByName(cell, "L") = args[0]
		return cell
	})

	// --- sync.Map: native association list keyed by interface values ---
	syncMapOf := func(in *Interp, recv Value) *Map {
		p := recv.(*Value)
		if in.syncMaps == nil {
			in.syncMaps = map[*Value]*Map{}
		}
		m, ok := in.syncMaps[p]
		if !ok {
			m = newMap(nil)
			in.syncMaps[p] = m
		}
		return m
	}
	reg("(*sync.Map).Load", func(in *Interp, fr *frame, args []Value) Value {
		if e := in.mapFind(syncMapOf(in, args[0]), args[1]); e != nil {
			return Tuple{e.v, True}
		}
		return Tuple{Iface{}, False}
	})
	reg("(*sync.Map).Store", func(in *Interp, fr *frame, args []Value) Value {
		in.mapInsert(syncMapOf(in, args[0]), args[1], args[2])
		return nil
	})
	reg("(*sync.Map).LoadOrStore", func(in *Interp, fr *frame, args []Value) Value {
		m := syncMapOf(in, args[0])
		if e := in.mapFind(m, args[1]); e != nil {
			return Tuple{e.v, True}
		}
		in.mapInsert(m, args[1], args[2])
		return Tuple{args[2], False}
	})
	reg("(*sync.Map).Delete", func(in *Interp, fr *frame, args []Value) Value {
		in.mapDelete(syncMapOf(in, args[0]), args[1])
		return nil
	})
	reg("(*sync.Map).LoadAndDelete", func(in *Interp, fr *frame, args []Value) Value {
		m := syncMapOf(in, args[0])
		if e := in.mapFind(m, args[1]); e != nil {
			v := e.v
			in.mapDelete(m, args[1])
			return Tuple{v, True}
		}
		return Tuple{Iface{}, False}
	})
	reg("(*sync.Map).Range", func(in *Interp, fr *frame, args []Value) Value {
		m := syncMapOf(in, args[0])
		for _, e := range append([]*mapEntry(nil), m.entries...) {
			if e.deleted {
				continue
			}
			r := in.call(fr, 0, args[1], []Value{e.k, e.v})
			if !in.ex.branch(r.(*Term)) {
				break
			}
		}
		return nil
	})

	// --- sync/atomic ---
	for _, ty := range []string{"Int32", "Int64", "Uint32", "Uint64", "Uintptr"} {
		reg("sync/atomic.Load"+ty, func(in *Interp, fr *frame, args []Value) Value { return in.loadFrom(args[0]) })
		reg("sync/atomic.Store"+ty, func(in *Interp, fr *frame, args []Value) Value { in.storeTo(args[0], args[1]); return nil })
		reg("sync/atomic.Add"+ty, func(in *Interp, fr *frame, args []Value) Value {
			// a read-modify-write is a synchronisation operation: a preemption point within the bound
			in.sched.maybePreempt()
			v := Add(in.loadFrom(args[0]).(*Term), args[1].(*Term))
			in.storeTo(args[0], v)
			return v
		})
		reg("sync/atomic.Swap"+ty, func(in *Interp, fr *frame, args []Value) Value {
			old := in.loadFrom(args[0])
			in.storeTo(args[0], args[1])
			return old
		})
		reg("sync/atomic.CompareAndSwap"+ty, func(in *Interp, fr *frame, args []Value) Value {
			cur := in.loadFrom(args[0]).(*Term)
			if in.ex.branch(Eq(cur, args[1].(*Term))) {
				in.storeTo(args[0], args[2])
				return True
			}
			return False
		})
	}
	reg("sync/atomic.LoadPointer", func(in *Interp, fr *frame, args []Value) Value { return in.loadFrom(args[0]) })
	reg("sync/atomic.StorePointer", func(in *Interp, fr *frame, args []Value) Value { in.storeTo(args[0], args[1]); return nil })

	// --- repo helpers built on unsafe / runtime introspection ---
	for k, v := range map[string]intrinsicFn{
		// *(*string)(unsafe.Pointer(&b)): same bytes viewed as a string (aliasing with later writes to b is not modelled)
		"/pkg/util.BytesToString": func(in *Interp, fr *frame, args []Value) Value {
			return mkStr(bytesOfSlice(args[0].(Slice)))
		},
		"/pkg/util.StringToBytes": func(in *Interp, fr *frame, args []Value) Value {
			return sliceOfBytes(append([]*Term(nil), strBytes(args[0])...))
		},
	} {
		repoIntrinsics[k] = v
	}
	reg("runtime.Caller", func(in *Interp, fr *frame, args []Value) Value {
		return Tuple{BV(64, 0), "", BV(64, 0), False}
	})
	reg("runtime.Callers", func(in *Interp, fr *frame, args []Value) Value { return BV(64, 0) })
	reg("runtime.FuncForPC", func(in *Interp, fr *frame, args []Value) Value { return (*Value)(nil) })

	// --- encoding/json: reflection based; the encoded text is an opaque constant (its content is never
	// inspected by the code under check; a harness that needs it must not rely on this model) ---
	reg("encoding/json.Marshal", func(in *Interp, fr *frame, args []Value) Value {
		// a distinct placeholder per call; the engine remembers which value it stands for, so that the
		// same text decodes back to that value (Unmarshal below)
		in.jsonSeq++
		ph := fmt.Sprintf("{\"opaque-json\":%d}", in.jsonSeq)
		if in.jsonVals == nil {
			in.jsonVals = map[string]Iface{}
		}
		if it, ok := args[0].(Iface); ok {
			in.jsonVals[ph] = Iface{T: it.T, V: copyVal(it.V)}
		}
		return Tuple{byteSliceFromString(ph), Iface{}}
	})
	reg("encoding/json.Unmarshal", func(in *Interp, fr *frame, args []Value) Value {
		data, ok := concreteString(sliceAsStr(args[0].(Slice)))
		target, ok2 := args[1].(Iface)
		if !ok || !ok2 {
			unsup("encoding/json.Unmarshal of symbolic text")
		}
		pt, isPtr := target.T.Underlying().(*types.Pointer)
		cell, isCell := target.V.(*Value)
		if !isPtr || !isCell || cell == nil {
			unsup("encoding/json.Unmarshal into %v", target.T)
		}
		if src, found := in.jsonVals[data]; found {
			sv := src.V
			st := src.T
			if sp, isP := st.Underlying().(*types.Pointer); isP {
				if c, okc := sv.(*Value); okc && c != nil {
					sv, st = *c, sp.Elem()
				}
			}
			if !types.Identical(st, pt.Elem()) {
				unsup("encoding/json.Unmarshal of an encoded %v into %v", st, pt.Elem())
			}
			*cell = copyVal(sv)
			return Iface{}
		}
		// concrete text from elsewhere: decode natively, assign flat fields by their json tags
		stt, isStruct := pt.Elem().Underlying().(*types.Struct)
		if !isStruct {
			unsup("encoding/json.Unmarshal into %v", pt.Elem())
		}
		var m map[string]interface{}
		if err := json.Unmarshal([]byte(data), &m); err != nil {
			return in.mkError("json: " + err.Error())
		}
		out := (*cell).(Struct)
		for i := 0; i < stt.NumFields(); i++ {
			name := stt.Field(i).Name()
			if tag := reflect.StructTag(stt.Tag(i)).Get("json"); tag != "" {
				if n := strings.Split(tag, ",")[0]; n != "" {
					name = n
				}
			}
			v, present := m[name]
			if !present {
				continue
			}
			ft := stt.Field(i).Type()
			switch x := v.(type) {
			case string:
				if !isStringT(ft) {
					return in.mkError("json: cannot unmarshal string into field " + name)
				}
				out[i] = x
			case float64:
				w, _, isInt := intWidth(ft)
				if !isInt {
					return in.mkError("json: cannot unmarshal number into field " + name)
				}
				out[i] = BV(w, uint64(int64(x)))
			case bool:
				if !isBoolT(ft) {
					return in.mkError("json: cannot unmarshal bool into field " + name)
				}
				out[i] = Bool(x)
			default:
				unsup("encoding/json.Unmarshal: nested value for field %s", name)
			}
		}
		return Iface{}
	})

	// --- strings.Builder: String() is unsafe.String(unsafe.SliceData(buf), len(buf)) ---
	reg("(*strings.Builder).String", func(in *Interp, fr *frame, args []Value) Value {
		st := (*args[0].(*Value)).(Struct)
		return sliceAsStr(st[len(st)-1].(Slice))
	})
	reg("(*strings.Builder).copyCheck", func(in *Interp, fr *frame, args []Value) Value { return nil })

	// --- float bit patterns (transport only) ---
	reg("math.Float64frombits", func(in *Interp, fr *frame, args []Value) Value {
		t := args[0].(*Term)
		if t.op == OpConst {
			return math.Float64frombits(t.c)
		}
		return OpaqueFloat{src: t, bits: true}
	})
	reg("math.Float64bits", func(in *Interp, fr *frame, args []Value) Value {
		switch f := args[0].(type) {
		case float64:
			return BV(64, math.Float64bits(f))
		case OpaqueFloat:
			if f.bits {
				return f.src
			}
		}
		unsup("Float64bits of %T", args[0])
		return nil
	})
	reg("math.Float32frombits", func(in *Interp, fr *frame, args []Value) Value {
		t := args[0].(*Term)
		if t.op == OpConst {
			return math.Float32frombits(uint32(t.c))
		}
		unsup("Float32frombits of symbolic value")
		return nil
	})
	reg("math.Float32bits", func(in *Interp, fr *frame, args []Value) Value {
		if f, ok := args[0].(float32); ok {
			return BV(32, uint64(math.Float32bits(f)))
		}
		unsup("Float32bits of %T", args[0])
		return nil
	})
	reg("math.NaN", func(in *Interp, fr *frame, args []Value) Value { return math.NaN() })
	reg("math.Inf", func(in *Interp, fr *frame, args []Value) Value {
		return math.Inf(int(int64(args[0].(*Term).c)))
	})

	// --- runtime / misc ---
	reg("runtime.Stack", func(in *Interp, fr *frame, args []Value) Value { return BV(64, 0) })
	reg("runtime.Gosched", func(in *Interp, fr *frame, args []Value) Value { in.sched.maybePreempt(); return nil })
	reg("runtime/debug.Stack", func(in *Interp, fr *frame, args []Value) Value { return Slice{} })
	reg("runtime.KeepAlive", func(in *Interp, fr *frame, args []Value) Value { return nil })
	reg("os.Exit", func(in *Interp, fr *frame, args []Value) Value {
		panic(pathEnd{"panic", "os.Exit called"})
	})
	reg("internal/abi.NoEscape", func(in *Interp, fr *frame, args []Value) Value { return args[0] })
	reg("unsafe.String", func(in *Interp, fr *frame, args []Value) Value { unsup("unsafe.String"); return nil })

	// time
	reg("time.Now", func(in *Interp, fr *frame, args []Value) Value { return in.timeNow() })
	reg("time.Sleep", func(in *Interp, fr *frame, args []Value) Value { in.sched.maybePreempt(); return nil })
	reg("time.NewTicker", func(in *Interp, fr *frame, args []Value) Value {
		tt := in.prog.ImportedPackage("time").Type("Ticker").Type()
		cell := new(Value)
		*cell = zero(tt)
		var ch Value = &Chan{id: in.sched.nextChanID(), env: "ticker"}
		// harness-controlled tickers: package-level verifTickers handed out in call order
		if in.mainPkg != nil {
			if tv, sv := in.mainPkg.Var("verifTickers"), in.mainPkg.Var("verifTickerSeq"); tv != nil && sv != nil {
				list := load(in.globalAddr(tv)).(Slice)
				seqCell := in.globalAddr(sv)
				k := int((*seqCell).(*Term).c)
				if k < list.len {
					ch = list.elems()[k]
					*seqCell = BV(64, uint64(k+1))
				}
			}
		}
		*structFieldByName(cell, "C") = ch
		return cell
	})
	reg("time.NewTimer", func(in *Interp, fr *frame, args []Value) Value {
		tt := in.prog.ImportedPackage("time").Type("Timer").Type()
		cell := new(Value)
		*cell = zero(tt)
		*structFieldByName(cell, "C") = in.sched.newTimerChan(args[0])
		return cell
	})
	reg("time.After", func(in *Interp, fr *frame, args []Value) Value {
		return in.sched.newTimerChan(args[0])
	})
	reg("time.Tick", intrinsics["time.After"])
	reg("(*time.Ticker).Stop", func(in *Interp, fr *frame, args []Value) Value { return nil })
	reg("(*time.Ticker).Reset", func(in *Interp, fr *frame, args []Value) Value { return nil })
	reg("(*time.Timer).Stop", func(in *Interp, fr *frame, args []Value) Value { return True })
	reg("(*time.Timer).Reset", func(in *Interp, fr *frame, args []Value) Value { return True })
	// crypto/rand: deterministic per-path byte sequence (only used to make fresh names)
	reg("crypto/rand.Read", func(in *Interp, fr *frame, args []Value) Value {
		b := args[0].(Slice)
		for i := 0; i < b.len; i++ {
			in.randSeq++
			*b.at(i) = BV(8, uint64(in.randSeq*37+11)&0xff)
		}
		in.ex.stats.Stubs["crypto/rand.Read: deterministic bytes (fresh names only)"] = true
		return Tuple{BV(64, uint64(b.len)), Iface{}}
	})
	reg("math/rand.Float64", func(in *Interp, fr *frame, args []Value) Value { return float64(0.5) })
	reg("math/rand.Intn", func(in *Interp, fr *frame, args []Value) Value {
		n := args[0].(*Term)
		v := in.ex.freshInternal("rand.Intn", 64)
		in.ex.assume(Ult(v, n))
		return v
	})
}

var tokenADD = tokenAdd()

func structFieldByName(p *Value, name string) *Value {
	// requires type information: we keep a side table from struct cell -> type via zero() caller; simpler: search by registered layouts
	st := (*p).(Struct)
	idx, ok := fieldIndexCache[name+"/"+strconv.Itoa(len(st))]
	if !ok {
		panic(fmt.Sprintf("structFieldByName: unknown layout for %s (%d fields)", name, len(st)))
	}
	return &st[idx]
}

// fieldIndexCache maps "field/numFields" to index for the few std structs we model natively.
var fieldIndexCache = map[string]int{}

var layoutOnce sync.Once

func (in *Interp) registerLayouts() { layoutOnce.Do(in.registerLayouts1) }

func (in *Interp) registerLayouts1() {
	regT := func(pkg, typ string, fields ...string) {
		p := in.prog.ImportedPackage(pkg)
		if p == nil {
			return
		}
		t := p.Type(typ)
		if t == nil {
			return
		}
		st, ok := t.Type().Underlying().(*types.Struct)
		if !ok {
			return
		}
		for _, f := range fields {
			for i := 0; i < st.NumFields(); i++ {
				if st.Field(i).Name() == f {
					fieldIndexCache[f+"/"+strconv.Itoa(st.NumFields())] = i
				}
			}
		}
	}
	regT("sync", "RWMutex", "writerSem", "readerSem")
	regT("sync", "WaitGroup", "sema")
	regT("sync", "Once", "done")
	regT("sync", "Cond", "L", "checker")
	regT("time", "Ticker", "C")
	regT("time", "Timer", "C")
}

func (in *Interp) invokeMethod(fr *frame, recv Iface, name string) Value {
	if recv.T == nil {
		in.rtPanic("nil interface method call")
	}
	ms := in.prog.MethodSets.MethodSet(recv.T)
	for i := 0; i < ms.Len(); i++ {
		if ms.At(i).Obj().Name() == name {
			f := in.prog.MethodValue(ms.At(i))
			return in.callSSA(fr, 0, f, []Value{recv.V}, nil)
		}
	}
	panic("invokeMethod: no method " + name + " on " + recv.T.String())
}

// Time model: time.Time{wall: 0, ext: nanoseconds since the Unix epoch, loc: nil}.
// Only the methods registered below are available on it; every other
// (time.Time) method is unsupported (it would misread the representation).
func (in *Interp) mkTime(ns *Term) Value {
	tt := in.prog.ImportedPackage("time").Type("Time").Type()
	v := zero(tt).(Struct)
	v[1] = ns
	return v
}

func timeNs(v Value) *Term { return v.(Struct)[1].(*Term) }

// timeNow: the harness-fixed clock, else a nondeterministic non-decreasing one.
func (in *Interp) timeNow() Value {
	if in.mainPkg != nil {
		if cv := in.mainPkg.Var("verifClockNs"); cv != nil {
			c := load(in.globalAddr(cv)).(*Term)
			if !(c.op == OpConst && c.c == 0) {
				return in.mkTime(c)
			}
		}
	}
	n := in.ex.freshInternal("clock", 64)
	prev := in.lastClock
	if prev == nil {
		prev = BV(64, 0)
	}
	in.ex.assume(BAnd(Sle(prev, n), Slt(n, BV(64, 1<<62))))
	in.lastClock = n
	return in.mkTime(n)
}

func init() {
	reg := func(name string, f intrinsicFn) { lateIntrinsics[name] = f }
	reg("(time.Time).UnixNano", func(in *Interp, fr *frame, args []Value) Value { return timeNs(args[0]) })
	reg("(time.Time).UnixMilli", func(in *Interp, fr *frame, args []Value) Value { return SDiv(timeNs(args[0]), BV(64, 1000000)) })
	reg("(time.Time).UnixMicro", func(in *Interp, fr *frame, args []Value) Value { return SDiv(timeNs(args[0]), BV(64, 1000)) })
	reg("(time.Time).Unix", func(in *Interp, fr *frame, args []Value) Value { return SDiv(timeNs(args[0]), BV(64, 1000000000)) })
	reg("(time.Time).Sub", func(in *Interp, fr *frame, args []Value) Value { return Sub(timeNs(args[0]), timeNs(args[1])) })
	reg("(time.Time).Add", func(in *Interp, fr *frame, args []Value) Value {
		return in.mkTime(Add(timeNs(args[0]), args[1].(*Term)))
	})
	reg("(time.Time).Before", func(in *Interp, fr *frame, args []Value) Value { return Slt(timeNs(args[0]), timeNs(args[1])) })
	reg("(time.Time).After", func(in *Interp, fr *frame, args []Value) Value { return Slt(timeNs(args[1]), timeNs(args[0])) })
	reg("(time.Time).Equal", func(in *Interp, fr *frame, args []Value) Value { return Eq(timeNs(args[0]), timeNs(args[1])) })
	reg("(time.Time).IsZero", func(in *Interp, fr *frame, args []Value) Value {
		st := args[0].(Struct)
		return BAnd(Eq(st[0].(*Term), BV(64, 0)), Eq(st[1].(*Term), BV(64, 0)))
	})
	reg("time.Unix", func(in *Interp, fr *frame, args []Value) Value {
		return in.mkTime(Add(Mul(args[0].(*Term), BV(64, 1000000000)), args[1].(*Term)))
	})
	reg("time.UnixMilli", func(in *Interp, fr *frame, args []Value) Value {
		return in.mkTime(Mul(args[0].(*Term), BV(64, 1000000)))
	})
	reg("time.Since", func(in *Interp, fr *frame, args []Value) Value {
		return Sub(timeNs(in.timeNow()), timeNs(args[0]))
	})
	reg("time.Until", func(in *Interp, fr *frame, args []Value) Value {
		return Sub(timeNs(args[0]), timeNs(in.timeNow()))
	})
}

// ---- byte-sequence kernels ----

func bytesEq(a, b []*Term) *Term {
	if len(a) != len(b) {
		return False
	}
	r := True
	for i := range a {
		r = BAnd(r, Eq(a[i], b[i]))
	}
	return r
}

func hasPrefix(s, p []*Term) *Term {
	if len(p) > len(s) {
		return False
	}
	return bytesEq(s[:len(p)], p)
}

func hasSuffix(s, p []*Term) *Term {
	if len(p) > len(s) {
		return False
	}
	return bytesEq(s[len(s)-len(p):], p)
}

// indexByte returns the index of the first occurrence as an ite-chain (-1 if absent).
func (in *Interp) indexByte(s []*Term, c *Term) Value {
	r := BV(64, ^uint64(0))
	for i := len(s) - 1; i >= 0; i-- {
		r = Ite(Eq(s[i], c), BV(64, uint64(i)), r)
	}
	return r
}

func (in *Interp) indexSub(s, sub []*Term) *Term {
	r := BV(64, ^uint64(0))
	for i := len(s) - len(sub); i >= 0; i-- {
		r = Ite(bytesEq(s[i:i+len(sub)], sub), BV(64, uint64(i)), r)
	}
	return r
}

func lowerTerm(t *Term) *Term {
	isUp := BAnd(Ule(BV(8, 'A'), t), Ule(t, BV(8, 'Z')))
	return Ite(isUp, Add(t, BV(8, 32)), t)
}

// equalFoldASCII: exact for ASCII; any non-ASCII byte makes the path unsupported.
func equalFoldASCII(in *Interp, a, b []*Term) *Term {
	for _, t := range append(append([]*Term(nil), a...), b...) {
		if t.op != OpConst {
			if in.ex.branch(Ule(BV(8, 0x80), t)) {
				unsup("EqualFold on non-ASCII symbolic bytes")
			}
		} else if t.c >= 0x80 {
			unsup("EqualFold on non-ASCII bytes")
		}
	}
	if len(a) != len(b) {
		return False
	}
	r := True
	for i := range a {
		r = BAnd(r, Eq(lowerTerm(a[i]), lowerTerm(b[i])))
	}
	return r
}

func mapASCII(in *Interp, v Value, lo, hi byte, delta uint64) Value {
	if s, ok := v.(string); ok {
		if lo == 'A' {
			return strings.ToLower(s)
		}
		return strings.ToUpper(s)
	}
	b := strBytes(v)
	out := make([]*Term, len(b))
	for i, t := range b {
		if t.op != OpConst && in.ex.branch(Ule(BV(8, 0x80), t)) {
			unsup("ToLower/ToUpper on non-ASCII symbolic bytes")
		}
		inr := BAnd(Ule(BV(8, uint64(lo)), t), Ule(t, BV(8, uint64(hi))))
		if lo == 'A' {
			out[i] = Ite(inr, Add(t, BV(8, 32)), t)
		} else {
			out[i] = Ite(inr, Sub(t, BV(8, 32)), t)
		}
	}
	return mkStr(out)
}

// ---- numbers <-> strings ----

func fmtInt(t *Term, signed bool) Value {
	if t.op == OpConst {
		if signed {
			return strconv.FormatInt(sext64(t.c, t.w), 10)
		}
		return strconv.FormatUint(t.c, 10)
	}
	return &SymStr{opq: t, sign: signed}
}

func (in *Interp) parseInt(s Value, base, bitSize int, signed bool, fn string) Value {
	w := uint8(64)
	mkErr := func(msg string) Value {
		return in.mkError("strconv." + fn + ": parsing: " + msg)
	}
	if o, ok := s.(*SymStr); ok && o.opq != nil {
		// round trip of an opaque rendering
		t := o.opq
		if t.w != 64 {
			if o.sign {
				t = SExt(t, 64)
			} else {
				t = ZExt(t, 64)
			}
		}
		if o.sign != signed {
			// parsing a signed rendering as unsigned fails for negatives and vice versa for big values
			if signed {
				if !in.ex.branch(Sle(BV(64, 0), t)) {
					return Tuple{BV(w, 1<<63-1), mkErr("value out of range")}
				}
			} else if !in.ex.branch(Sle(BV(64, 0), t)) {
				return Tuple{BV(w, 0), mkErr("invalid syntax")}
			}
		}
		if bitSize < 64 {
			unsup("ParseInt bitSize %d of opaque numeric string", bitSize)
		}
		return Tuple{t, Iface{}}
	}
	if cs, ok := s.(string); ok {
		if signed {
			n, err := strconv.ParseInt(cs, base, bitSize)
			if err != nil {
				return Tuple{BV(w, uint64(n)), mkErr(err.Error())}
			}
			return Tuple{BV(w, uint64(n)), Iface{}}
		}
		n, err := strconv.ParseUint(cs, base, bitSize)
		if err != nil {
			return Tuple{BV(w, n), mkErr(err.Error())}
		}
		return Tuple{BV(w, n), Iface{}}
	}
	// symbolic digits: decide per byte by forking on digit-ness; value as a term
	b := strBytes(s)
	if base != 10 {
		unsup("ParseInt base %d on symbolic string", base)
	}
	if len(b) == 0 || len(b) > 18 {
		if len(b) == 0 {
			return Tuple{BV(w, 0), mkErr("invalid syntax")}
		}
		unsup("ParseInt of %d symbolic bytes", len(b))
	}
	neg := False
	start := 0
	if signed || true {
		isMinus := Eq(b[0], BV(8, '-'))
		isPlus := Eq(b[0], BV(8, '+'))
		if in.ex.branch(BOr(isMinus, isPlus)) {
			if !signed {
				return Tuple{BV(w, 0), mkErr("invalid syntax")}
			}
			neg = isMinus
			start = 1
			if len(b) == 1 {
				return Tuple{BV(w, 0), mkErr("invalid syntax")}
			}
		}
	}
	val := BV(64, 0)
	for _, d := range b[start:] {
		isDigit := BAnd(Ule(BV(8, '0'), d), Ule(d, BV(8, '9')))
		if !in.ex.branch(isDigit) {
			// underscores are only legal with base 0
			return Tuple{BV(w, 0), mkErr("invalid syntax")}
		}
		val = Add(Mul(val, BV(64, 10)), ZExt(Sub(d, BV(8, '0')), 64))
	}
	val = Ite(neg, Neg(val), val)
	if bitSize < 64 {
		lim := uint64(1) << uint(bitSize-1)
		var okR *Term
		if signed {
			okR = BAnd(Sle(BV(64, -lim), val), Slt(val, BV(64, lim)))
		} else {
			okR = Ult(val, BV(64, lim<<1))
		}
		if !in.ex.branch(okR) {
			return Tuple{BV(w, 0), mkErr("value out of range")}
		}
	}
	return Tuple{val, Iface{}}
}

// ---- errors ----

func (in *Interp) errorStringType() types.Type {
	p := in.prog.ImportedPackage("errors")
	return types.NewPointer(p.Type("errorString").Type())
}

func (in *Interp) mkError(msg string) Value { return in.mkErrorV(msg) }

func (in *Interp) mkErrorV(msg Value) Value {
	cell := new(Value)
	*cell = Struct{msg}
	return Iface{T: in.errorStringType(), V: cell}
}

func (in *Interp) fmtErrorf(format Value, args Slice) Value {
	f := argStr(format)
	msg := in.sprintf(strings.ReplaceAll(f, "%w", "%v"), args.elems())
	if !strings.Contains(f, "%w") {
		return in.mkErrorV(msg)
	}
	// wrapError{msg, err}
	var wrapped Value = Iface{}
	vi := 0
	for i := 0; i < len(f); i++ {
		if f[i] == '%' && i+1 < len(f) {
			if f[i+1] == '%' {
				i++
				continue
			}
			j := i + 1
			for j < len(f) && strings.IndexByte("+-# 0123456789.", f[j]) >= 0 {
				j++
			}
			if j < len(f) && f[j] == 'w' {
				if vi < args.len {
					wrapped = args.elems()[vi]
				}
			}
			vi++
			i = j
		}
	}
	fp := in.prog.ImportedPackage("fmt")
	if fp == nil {
		return in.mkErrorV(msg)
	}
	wt := fp.Type("wrapError")
	cell := new(Value)
	*cell = Struct{msg, wrapped}
	return Iface{T: types.NewPointer(wt.Type()), V: cell}
}

func (in *Interp) errUnwrap(fr *frame, e Iface) Value {
	if e.T == nil {
		return Iface{}
	}
	ms := in.prog.MethodSets.MethodSet(e.T)
	for i := 0; i < ms.Len(); i++ {
		if ms.At(i).Obj().Name() == "Unwrap" {
			sig := ms.At(i).Type().(*types.Signature)
			if sig.Results().Len() == 1 && types.Identical(sig.Results().At(0).Type(), types.Universe.Lookup("error").Type()) {
				f := in.prog.MethodValue(ms.At(i))
				return in.callSSA(fr, 0, f, []Value{e.V}, nil)
			}
		}
	}
	return Iface{}
}

// errorsAs: errors.As without reflection (target is *T held in an interface).
func (in *Interp) errorsAs(fr *frame, err, target Iface) Value {
	pt, ok := target.T.Underlying().(*types.Pointer)
	cell, ok2 := target.V.(*Value)
	if !ok || !ok2 || cell == nil {
		in.rtPanic("errors: target must be a non-nil pointer")
	}
	elem := pt.Elem()
	var visit func(e Iface, depth int) bool
	visit = func(e Iface, depth int) bool {
		if e.T == nil || depth > 16 {
			return false
		}
		if it, isIface := elem.Underlying().(*types.Interface); isIface {
			if m, _ := types.MissingMethod(e.T, it, true); m == nil {
				*cell = e
				return true
			}
		} else if types.Identical(e.T, elem) {
			*cell = copyVal(e.V)
			return true
		}
		ms := in.prog.MethodSets.MethodSet(e.T)
		for i := 0; i < ms.Len(); i++ {
			if ms.At(i).Obj().Name() == "Unwrap" {
				sig := ms.At(i).Type().(*types.Signature)
				if sig.Results().Len() == 1 {
					f := in.prog.MethodValue(ms.At(i))
					r := in.callSSA(fr, 0, f, []Value{e.V}, nil)
					if sl, isSlice := r.(Slice); isSlice {
						for _, x := range sl.elems() {
							if visit(x.(Iface), depth+1) {
								return true
							}
						}
						return false
					}
					if ni, isI := r.(Iface); isI {
						return visit(ni, depth+1)
					}
				}
			}
		}
		return false
	}
	return Bool(visit(err, 0))
}

func (in *Interp) errorsIs(fr *frame, err, target Iface) Value {
	if err.T == nil || target.T == nil {
		return Bool(err.T == nil && target.T == nil)
	}
	for depth := 0; depth < 16; depth++ {
		if err.T == nil {
			return False
		}
		if types.Comparable(target.T) && types.Identical(err.T, target.T) {
			eq := equals(err.V, target.V)
			if in.ex.branch(eq) {
				return True
			}
		}
		// Is method
		ms := in.prog.MethodSets.MethodSet(err.T)
		for i := 0; i < ms.Len(); i++ {
			if ms.At(i).Obj().Name() == "Is" {
				f := in.prog.MethodValue(ms.At(i))
				r := in.callSSA(fr, 0, f, []Value{err.V, target}, nil)
				if rt, ok := r.(*Term); ok && in.ex.branch(rt) {
					return True
				}
			}
		}
		// Unwrap() []error (errors.Join)
		for i := 0; i < ms.Len(); i++ {
			if ms.At(i).Obj().Name() == "Unwrap" {
				sig := ms.At(i).Type().(*types.Signature)
				if sig.Results().Len() == 1 {
					if _, isSlice := sig.Results().At(0).Type().Underlying().(*types.Slice); isSlice {
						f := in.prog.MethodValue(ms.At(i))
						r := in.callSSA(fr, 0, f, []Value{err.V}, nil)
						for _, e := range r.(Slice).elems() {
							sub := in.errorsIs(fr, e.(Iface), target).(*Term)
							if in.ex.branch(sub) {
								return True
							}
						}
						return False
					}
				}
			}
		}
		next := in.errUnwrap(fr, err)
		ni, ok := next.(Iface)
		if !ok {
			return False
		}
		err = ni
	}
	return False
}

// ---- fmt ----

func (in *Interp) sprintf(format Value, args []Value) Value {
	f := argStr(format)
	var out Value = ""
	lit := strings.Builder{}
	flush := func() {
		if lit.Len() > 0 {
			out = in.binop(tokenADD, types.Typ[types.String], out, lit.String())
			lit.Reset()
		}
	}
	ai := 0
	for i := 0; i < len(f); i++ {
		c := f[i]
		if c != '%' {
			lit.WriteByte(c)
			continue
		}
		if i+1 < len(f) && f[i+1] == '%' {
			lit.WriteByte('%')
			i++
			continue
		}
		j := i + 1
		for j < len(f) && strings.IndexByte("+-# 0123456789.", f[j]) >= 0 {
			j++
		}
		if j >= len(f) {
			lit.WriteString(f[i:])
			break
		}
		flags := f[i+1 : j]
		verb := f[j]
		i = j
		if ai >= len(args) {
			lit.WriteString("%!" + string(verb) + "(MISSING)")
			continue
		}
		a := args[ai]
		ai++
		s := in.fmtArg(verb, flags, a)
		if cs, ok := s.(string); ok {
			lit.WriteString(cs)
			continue
		}
		flush()
		if isOpaque(s) {
			if out == "" && j == len(f)-1 {
				out = s
				continue
			}
			// opaque text embedded in a larger string: the result is an opaque blob
			out = &SymStr{opq: in.ex.freshInternal("fmt.opaque", 64)}
			in.ex.stats.Stubs["fmt: symbolic number embedded in formatted text (opaque result)"] = true
			lit.Reset()
			return out
		}
		out = in.binop(tokenADD, types.Typ[types.String], out, s)
	}
	flush()
	return out
}

func (in *Interp) fmtArg(verb byte, flags string, a Value) Value {
	if ifc, ok := a.(Iface); ok {
		if ifc.T == nil {
			return "<nil>"
		}
		// error / Stringer
		if verb == 'v' || verb == 's' {
			ms := in.prog.MethodSets.MethodSet(ifc.T)
			for _, mname := range []string{"Error", "String"} {
				for i := 0; i < ms.Len(); i++ {
					if ms.At(i).Obj().Name() == mname {
						sig := ms.At(i).Type().(*types.Signature)
						if sig.Params().Len() == 0 && sig.Results().Len() == 1 && isStringT(sig.Results().At(0).Type()) {
							f := in.prog.MethodValue(ms.At(i))
							return in.callSSA(nil, 0, f, []Value{ifc.V}, nil)
						}
					}
				}
			}
		}
		return in.fmtScalar(verb, flags, ifc.V, ifc.T)
	}
	return in.fmtScalar(verb, flags, a, nil)
}

func (in *Interp) fmtScalar(verb byte, flags string, v Value, t types.Type) Value {
	switch x := v.(type) {
	case string:
		switch verb {
		case 's', 'v':
			return x
		case 'q':
			return strconv.Quote(x)
		case 'x':
			return fmt.Sprintf("%x", x)
		}
		return x
	case *SymStr:
		if verb == 's' || verb == 'v' {
			return x
		}
		return "<symbolic-string>"
	case *Term:
		if x.w == 0 {
			if x.op == OpConst {
				return strconv.FormatBool(x.c != 0)
			}
			return "<symbolic-bool>"
		}
		signed := t == nil || isSignedT(t)
		if x.op == OpConst {
			var n interface{}
			if signed {
				n = sext64(x.c, x.w)
			} else {
				n = x.c
			}
			if verb == 's' || verb == 'q' {
				verb = 'd'
			}
			return fmt.Sprintf("%"+flags+string(verb), n)
		}
		if (verb == 'd' || verb == 'v') && flags == "" {
			return fmtInt(x, signed)
		}
		// zero padded fixed-width hex of an unsigned value: exact, one symbolic character per nibble
		if verb == 'x' && len(flags) >= 2 && flags[0] == '0' && !signed {
			if n, err := strconv.Atoi(flags[1:]); err == nil && n >= int(x.w)/4 && n <= 64 {
				out := make([]*Term, n)
				for i := 0; i < n; i++ {
					sh := uint(n-1-i) * 4
					var nib *Term
					if sh >= uint(x.w) {
						nib = BV(8, 0)
					} else {
						nib = ZExt(Extract(x, uint8(sh+3), uint8(sh)), 8)
					}
					out[i] = Ite(Ult(nib, BV(8, 10)), Add(nib, BV(8, '0')), Add(nib, BV(8, 'a'-10)))
				}
				return mkStr(out)
			}
		}
		return &SymStr{opq: in.ex.freshInternal("fmt.num", 64)}
	case float64:
		return fmt.Sprintf("%"+flags+string(verb), x)
	case Slice:
		if verb == 'x' && x.opq == nil {
			// hex of a byte slice with concrete content
			ok := true
			var sb strings.Builder
			for _, e := range x.elems() {
				t, isT := e.(*Term)
				if !isT || t.op != OpConst || t.w != 8 {
					ok = false
					break
				}
				fmt.Fprintf(&sb, "%02x", t.c)
			}
			if ok {
				return sb.String()
			}
		}
		if (verb == 's' || verb == 'v') && x.len >= 0 {
			if t != nil {
				if sl, ok := t.Underlying().(*types.Slice); ok {
					if b, ok := sl.Elem().Underlying().(*types.Basic); ok && b.Kind() == types.Byte && verb == 's' {
						return mkStr(bytesOfSlice(x))
					}
				}
			}
		}
		return "<slice>"
	}
	return "<value>"
}
