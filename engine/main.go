package main

import (
	"runtime"
	"runtime/pprof"
	"sync"
	"encoding/json"
	"flag"
	"fmt"
	"go/token"
	"os"
	"path/filepath"
	"sort"
	"strings"
	"time"

	"golang.org/x/tools/go/packages"
	"golang.org/x/tools/go/ssa"
	"golang.org/x/tools/go/ssa/ssautil"
)

type TierSpec struct {
	Params        map[string]int `json:"params"`
	MaxSteps      int64          `json:"max_steps"`
	// MaxWallS: wall-clock budget per harness in seconds (default 1500 quick / 7200 thorough); when
	// it runs out with paths pending the run is INCONCLUSIVE (a changed tree must not hang a check)
	MaxWallS int `json:"max_wall_s"`
	// Preemptions: per-tier override of the harness's preemption bound
	Preemptions *int `json:"preemptions"`
	MaxPaths      int            `json:"max_paths"`
	QueryTimeoutS int            `json:"query_timeout_s"`
	Skip          bool           `json:"skip"`
}

type HarnessSpec struct {
	Func        string              `json:"func"`
	Tiers       map[string]TierSpec `json:"tiers"`
	MapOrder    *bool               `json:"map_order"`
	Preemptions *int                `json:"preemptions"`
	EnvFires    *int                `json:"env_fires"`
	Cover       []string            `json:"cover"`
	Reach       []string            `json:"reach"`
	Replace     map[string]string   `json:"replace"`
	Native      string              `json:"native"` // "" (default replay) | "none"
	NativeAttempts int              `json:"native_attempts"` // native replays to try when the schedule is racy (default 1)
	SchedForks  *bool               `json:"sched_forks"`
	NoDiff      bool                `json:"no_diff"` // skip the engine-vs-native differential
	DiffTraces  int                 `json:"diff_traces"` // cap on differential traces for this harness (0 = default)
	Note        string              `json:"note"`
}

// Spec describes the check of one property: a list of units (one package each).
type Spec struct {
	Property    string              `json:"property"`
	Units       []*Unit             `json:"units"`
	Tiers       map[string]TierSpec `json:"tiers"`
	Assumptions []string            `json:"assumptions"`
	Bounds      map[string]string   `json:"bounds"`
	Outside     []string            `json:"outside"`
	Level       string              `json:"level"`
	// AssertPrefixes: only violations whose assertion id starts with one of these belong to this
	// property (a harness shared by several properties carries all their oracles).
	AssertPrefixes []string `json:"assert_prefixes"`
}

// Unit is one package under test with its harness files.
type Unit struct {
	Package     string            `json:"package"` // directory under /repo, e.g. "pkg/redis"
	Files       []string          `json:"files"`   // harness sources under /verif/harness/<package>/
	Harnesses   []HarnessSpec     `json:"harnesses"`
	InitPkgs    []string          `json:"init_pkgs"`
	// Solver: command line of the deciding solver for this unit (default: z3-new -in). cvc5 decides
	// long chains of 64-bit linear inequalities (clock arithmetic) that z3's bit-blaster does not.
	Solver      string            `json:"solver"`
	NoopPkgs    []string          `json:"noop_pkgs"`
	Replace     map[string]string `json:"replace"`
	// ReplaceAlways: replacements that also apply when native traces are re-executed concretely
	// (pure performance stubs whose result does not influence what the harness observes).
	ReplaceAlways map[string]string `json:"replace_always"`
	MapOrder    bool              `json:"map_order"`
	// MapOrderBudget: only the first N multi-entry map iterations of a path get a nondeterministic
	// order (0 = all); later ones use insertion order.
	MapOrderBudget int            `json:"map_order_budget"`
	Preemptions int               `json:"preemptions"`
	EnvFires    int               `json:"env_fires"`
	// ExtraFiles: harness sources injected into other packages (directory under /repo -> files under
	// /verif/harness/<dir>/), e.g. an exported constructor next to unexported fields.
	ExtraFiles map[string][]string `json:"extra_files"`
	// SchedForks: explore every choice of the next runnable goroutine (default: round-robin).
	SchedForks bool `json:"sched_forks"`
	// NativeRewrite: textual substitutions applied (for native runs only) to files of the
	// current /repo tree, e.g. time.NewTicker( -> verifNewTicker( so that the harness controls tickers.
	NativeRewrite map[string][][2]string `json:"native_rewrite"`
	// Rewrite: like NativeRewrite but applied in both modes (symbolic load and native runs): the
	// environment a package talks to (package os, time.Sleep) is redirected to a harness model
	// written in Go. "*" as the file name applies the substitutions to every non-test .go file
	// of the unit's package. Every substitution is part of the claim and is listed in the evidence.
	Rewrite map[string][][2]string `json:"rewrite"`
	// HugeSlicePhys: slices longer than this many elements are materialised lazily (default 1<<16);
	// a unit that decodes multi-megabyte arguments raises it
	HugeSlicePhys int `json:"huge_slice_phys"`

	spec   *Spec
	params map[string]int
}

var (
	repoDir  = "/repo"
	verifDir = "/verif"
)

func main() {
	if len(os.Args) < 2 {
		fmt.Fprintln(os.Stderr, "usage: gosym run|replay ...")
		os.Exit(2)
	}
	if d := os.Getenv("VERIF_REPO"); d != "" {
		repoDir = d
	}
	if d := os.Getenv("VERIF_DIR"); d != "" {
		verifDir = d
	}
	if pf := os.Getenv("GOSYM_CPUPROF"); pf != "" {
		f, _ := os.Create(pf)
		pprof.StartCPUProfile(f)
		defer pprof.StopCPUProfile()
		go func() {
			time.Sleep(40 * time.Second)
			pprof.StopCPUProfile()
			os.Exit(9)
		}()
	}
	switch os.Args[1] {
	case "run":
		rc := cmdRun(os.Args[2:])
		pprof.StopCPUProfile()
		os.Exit(rc)
		os.Exit(cmdRun(os.Args[2:]))
	case "replay":
		os.Exit(cmdReplay(os.Args[2:]))
	case "shard":
		os.Exit(cmdShard(os.Args[2:]))
	default:
		fmt.Fprintln(os.Stderr, "unknown subcommand")
		os.Exit(2)
	}
}

type runOpts struct {
	specPath string
	tier     string
	only     string
	trace    bool
	seed     int64
	workers  int
	noNative bool
}

func parseRunOpts(args []string) *runOpts {
	fs := flag.NewFlagSet("run", flag.ExitOnError)
	o := &runOpts{}
	fs.StringVar(&o.specPath, "spec", "", "spec json")
	fs.StringVar(&o.tier, "tier", "quick", "quick|thorough")
	fs.StringVar(&o.only, "only", "", "only this harness")
	fs.BoolVar(&o.trace, "trace", false, "trace calls")
	fs.IntVar(&o.workers, "workers", 0, "worker processes (0 = auto)")
	fs.BoolVar(&o.noNative, "no-native", false, "skip native replay of counterexamples")
	fs.Parse(args)
	if s := os.Getenv("VERIF_SEED"); s != "" {
		fmt.Sscan(s, &o.seed)
	}
	if t := os.Getenv("VERIF_TIER"); t != "" && !flagPassed(fs, "tier") {
		o.tier = t
	}
	return o
}

func flagPassed(fs *flag.FlagSet, name string) bool {
	found := false
	fs.Visit(func(f *flag.Flag) {
		if f.Name == name {
			found = true
		}
	})
	return found
}

func loadSpec(path string) (*Spec, error) {
	b, err := os.ReadFile(path)
	if err != nil {
		return nil, err
	}
	var s Spec
	if err := json.Unmarshal(b, &s); err != nil {
		return nil, fmt.Errorf("%s: %v", path, err)
	}
	for _, u := range s.Units {
		u.spec = &s
	}
	return &s, nil
}

// Loaded program
type Program struct {
	prog    *ssa.Program
	pkg     *ssa.Package
	pkgs    []*packages.Package
	modPath string
	overlay map[string][]byte
	loadSec float64
}

// rtSource returns the harness runtime for package pkgName.
func rtSource(pkgName string) []byte {
	b, err := os.ReadFile(filepath.Join(verifDir, "harness", "rt", "zz_verif_rt.go.tmpl"))
	if err != nil {
		panic(err)
	}
	return []byte(strings.Replace(string(b), "package PKG", "package "+pkgName, 1))
}

func pkgNameOf(dir string) string {
	ents, _ := os.ReadDir(dir)
	for _, e := range ents {
		if strings.HasSuffix(e.Name(), ".go") && !strings.HasSuffix(e.Name(), "_test.go") {
			b, _ := os.ReadFile(filepath.Join(dir, e.Name()))
			for _, l := range strings.Split(string(b), "\n") {
				l = strings.TrimSpace(l)
				if strings.HasPrefix(l, "package ") {
					return strings.Fields(l)[1]
				}
			}
		}
	}
	return filepath.Base(dir)
}

// rewritePackageClause makes the harness file belong to the package of the directory it is injected into.
func rewritePackageClause(src []byte, pname string) []byte {
	lines := strings.Split(string(src), "\n")
	for i, l := range lines {
		if strings.HasPrefix(strings.TrimSpace(l), "package ") {
			lines[i] = "package " + pname
			break
		}
	}
	return []byte(strings.Join(lines, "\n"))
}

func buildOverlay(spec *Unit) map[string][]byte {
	ov := map[string][]byte{}
	pdir := filepath.Join(repoDir, spec.Package)
	pname := pkgNameOf(pdir)
	ov[filepath.Join(pdir, "zz_verif_rt.go")] = rtSource(pname)
	for _, f := range spec.Files {
		src := filepath.Join(verifDir, "harness", spec.Package, f)
		if strings.HasPrefix(f, "shared/") {
			src = filepath.Join(verifDir, "harness", f)
		}
		b, err := os.ReadFile(src)
		if err != nil {
			panic(err)
		}
		ov[filepath.Join(pdir, filepath.Base(f))] = rewritePackageClause(b, pname)
	}
	for path, txt := range sourceRewrites(spec) {
		ov[path] = txt
	}
	for dir, files := range spec.ExtraFiles {
		d := filepath.Join(repoDir, dir)
		dn := pkgNameOf(d)
		for _, f := range files {
			b, err := os.ReadFile(filepath.Join(verifDir, "harness", dir, f))
			if err != nil {
				panic(err)
			}
			ov[filepath.Join(d, f)] = rewritePackageClause(b, dn)
		}
	}
	return ov
}

// sourceRewrites applies the unit's Rewrite substitutions to the current /repo sources.
func sourceRewrites(u *Unit) map[string][]byte {
	out := map[string][]byte{}
	if len(u.Rewrite) == 0 {
		return out
	}
	pdir := filepath.Join(repoDir, u.Package)
	apply := func(path string, subs [][2]string) {
		b, ok := out[path]
		if !ok {
			var err error
			b, err = os.ReadFile(path)
			if err != nil {
				panic(err)
			}
		}
		txt := string(b)
		for _, s := range subs {
			txt = strings.ReplaceAll(txt, s[0], s[1])
		}
		out[path] = []byte(txt)
	}
	if subs, ok := u.Rewrite["*"]; ok {
		ents, _ := os.ReadDir(pdir)
		for _, e := range ents {
			n := e.Name()
			if strings.HasSuffix(n, ".go") && !strings.HasSuffix(n, "_test.go") && !strings.HasPrefix(n, "zz_verif") {
				apply(filepath.Join(pdir, n), subs)
			}
		}
	}
	for rel, subs := range u.Rewrite {
		if rel != "*" {
			apply(filepath.Join(repoDir, rel), subs)
		}
	}
	return out
}

func loadProgram(spec *Unit) (*Program, error) {
	start := time.Now()
	ov := buildOverlay(spec)
	cfg := &packages.Config{
		Mode:    packages.LoadAllSyntax | packages.NeedModule,
		Dir:     repoDir,
		Overlay: ov,
		Env:     append(os.Environ(), "GOFLAGS=-mod=mod", "GOPROXY=off", "GOSUMDB=off", "GOTOOLCHAIN=local", "CGO_ENABLED=0"),
		Fset:    token.NewFileSet(),
	}
	pkgs, err := packages.Load(cfg, "./"+spec.Package)
	if err != nil {
		return nil, err
	}
	if packages.PrintErrors(pkgs) > 0 {
		return nil, fmt.Errorf("package load errors")
	}
	prog, spkgs := ssautil.AllPackages(pkgs, ssa.InstantiateGenerics)
	if len(spkgs) == 0 || spkgs[0] == nil {
		return nil, fmt.Errorf("no ssa package")
	}
	spkgs[0].Build()
	mod := ""
	if pkgs[0].Module != nil {
		mod = pkgs[0].Module.Path
	}
	return &Program{prog: prog, pkg: spkgs[0], pkgs: pkgs, modPath: mod, overlay: ov, loadSec: time.Since(start).Seconds()}, nil
}

func defaultNoop(mod string) []string {
	return []string{
		mod + "/pkg/log", mod + "/pkg/metric",
		"go.uber.org/zap", "go.uber.org/zap/...", "github.com/prometheus/...", "log",
	}
}

func (p *Program) newInterp(spec *Unit, hs *HarnessSpec, tier string, ex *Explorer) *Interp {
	if spec.HugeSlicePhys > 0 {
		hugeSlicePhys = spec.HugeSlicePhys
	} else {
		hugeSlicePhys = 1 << 16
	}
	in := &Interp{prog: p.prog, ex: ex, spec: spec, modPath: p.modPath, mainPkg: p.pkg,
		noopPkgs: map[string]bool{}, initPkgs: map[string]bool{}, replace: map[string]*ssa.Function{}, replaceAlways: map[string]bool{},
		methodCache: map[string]*ssa.Function{}, pkgBuilt: map[*ssa.Package]bool{}}
	for _, n := range defaultNoop(p.modPath) {
		in.noopPkgs[n] = true
	}
	for _, n := range spec.NoopPkgs {
		in.noopPkgs[n] = true
	}
	for _, n := range []string{"io", "strconv", "unicode/utf8", "unicode", "bufio", "bytes", "strings", "sort", "math", "math/bits",
		"encoding/binary", "context", "io/fs", "hash/crc32", "hash/crc64", "encoding/hex", "slices", "maps", "cmp",
		"internal/oserror", "path", "container/list"} {
		in.initPkgs[n] = true
	}
	for _, n := range spec.InitPkgs {
		in.initPkgs[n] = true
	}
	resolve := func(name string) *ssa.Function {
		f := findFunc(p.prog, name)
		if f == nil {
			panic("replace: cannot resolve function " + name)
		}
		return f
	}
	for from, to := range spec.Replace {
		in.replace[resolve(from).String()] = resolve(to)
	}
	for from, to := range spec.ReplaceAlways {
		in.replace[resolve(from).String()] = resolve(to)
		in.replaceAlways[resolve(from).String()] = true
	}
	if hs != nil {
		for from, to := range hs.Replace {
			in.replace[resolve(from).String()] = resolve(to)
		}
	}
	in.skipUserInit = map[string]bool{}
	for _, sfx := range []string{"/pkg/version", "/pkg/util", "/pkg/redis/client", "/pkg/api/golang", "/pkg/log"} {
		in.skipUserInit[p.modPath+sfx] = true
	}
	in.registerLayouts()
	return in
}

// findFunc resolves "pkgpath.Func" or "(*pkgpath.T).Method" / "(pkgpath.T).Method".
func findFunc(prog *ssa.Program, name string) *ssa.Function {
	for _, pkg := range prog.AllPackages() {
		path := pkg.Pkg.Path()
		if !strings.Contains(name, path) {
			continue
		}
		if strings.HasPrefix(name, path+".") {
			if f := pkg.Func(name[len(path)+1:]); f != nil {
				return f
			}
		}
		for _, m := range pkg.Members {
			t, ok := m.(*ssa.Type)
			if !ok {
				continue
			}
			for _, ptr := range []bool{false, true} {
				typ := t.Type()
				if ptr {
					typ = typesPointer(typ)
				}
				ms := prog.MethodSets.MethodSet(typ)
				for i := 0; i < ms.Len(); i++ {
					f := prog.MethodValue(ms.At(i))
					if f != nil && f.String() == name {
						return f
					}
				}
			}
		}
	}
	return nil
}

type HarnessResult struct {
	Func     string
	Stats    *Stats
	Solver   struct{ Queries, Sat, Unsat, Unknown int; Sec float64 }
	WallSec  float64
	Params   map[string]int
	MissingCover []string
	MissingReach []string
	unit *Unit
}

func (u *Unit) tierFor(hs *HarnessSpec, tier string) TierSpec {
	t := u.spec.Tiers[tier]
	if t.Params == nil {
		t.Params = map[string]int{}
	}
	merged := TierSpec{Params: map[string]int{}, MaxSteps: t.MaxSteps, MaxPaths: t.MaxPaths, QueryTimeoutS: t.QueryTimeoutS, MaxWallS: t.MaxWallS}
	for k, v := range t.Params {
		merged.Params[k] = v
	}
	if ht, ok := hs.Tiers[tier]; ok {
		for k, v := range ht.Params {
			merged.Params[k] = v
		}
		if ht.MaxSteps > 0 {
			merged.MaxSteps = ht.MaxSteps
		}
		if ht.MaxPaths > 0 {
			merged.MaxPaths = ht.MaxPaths
		}
		if ht.QueryTimeoutS > 0 {
			merged.QueryTimeoutS = ht.QueryTimeoutS
		}
		merged.Skip = ht.Skip
		if ht.Preemptions != nil {
			merged.Preemptions = ht.Preemptions
		}
	}
	if merged.MaxSteps == 0 {
		merged.MaxSteps = 5_000_000
	}
	if merged.QueryTimeoutS == 0 {
		merged.QueryTimeoutS = 60
	}
	return merged
}

func runHarness(p *Program, spec *Unit, hs *HarnessSpec, tier string, o *runOpts, shard *shardSel) (*HarnessResult, error) {
	ts := spec.tierFor(hs, tier)
	fn := p.pkg.Func(hs.Func)
	if fn == nil {
		return nil, fmt.Errorf("harness %s not found in %s", hs.Func, p.pkg.Pkg.Path())
	}
	hspec := *spec
	hspec.params = ts.Params
	if hs.MapOrder != nil {
		hspec.MapOrder = *hs.MapOrder
	}
	if hs.Preemptions != nil {
		hspec.Preemptions = *hs.Preemptions
	}
	if ts.Preemptions != nil {
		hspec.Preemptions = *ts.Preemptions
	}
	if hs.EnvFires != nil {
		hspec.EnvFires = *hs.EnvFires
	}
	if hs.SchedForks != nil {
		hspec.SchedForks = *hs.SchedForks
	}
	nw := o.workers
	if nw <= 0 {
		nw = runtime.NumCPU()
		if nw > 16 {
			nw = 16
		}
	}
	if o.trace {
		nw = 1
	}
	pool := newPool(ts.MaxPaths, nw)
	wallS := ts.MaxWallS
	if wallS == 0 {
		wallS = 1500
		if tier == "thorough" {
			wallS = 7200
		}
	}
	pool.deadline = time.Now().Add(time.Duration(wallS) * time.Second)
	pool.push(0, workItem{prefix: nil, model: Model{}})
	start := time.Now()
	total := newStats()
	res := &HarnessResult{Func: hs.Func, Stats: total, Params: ts.Params}
	var wg sync.WaitGroup
	var mu sync.Mutex
	var firstErr error
	for w := 0; w < nw; w++ {
		wg.Add(1)
		go func(w int) {
			defer wg.Done()
			solver, err := NewSolver(solverArgvFor(spec), ts.QueryTimeoutS*1000)
			if err != nil {
				mu.Lock()
				firstErr = err
				mu.Unlock()
				return
			}
			defer solver.Close()
			ex := &Explorer{solver: solver, stats: newStats(), maxSteps: ts.MaxSteps, maxViolPerID: 3, pool: pool, id: w}
			in := p.newInterp(&hspec, hs, tier, ex)
			in.trace = o.trace
			ex.in = in
			ex.Run(func() { in.callSSA(nil, 0, fn, nil, nil) })
			if len(solver.Errors) > 0 {
				ex.inconclusive("solver error lines: " + strings.Join(solver.lastErrors(), " | "))
			}
			mu.Lock()
			total.merge(ex.stats)
			res.Solver.Queries += solver.Queries
			res.Solver.Sat += solver.NSat
			res.Solver.Unsat += solver.NUnsat
			res.Solver.Unknown += solver.NUnknown
			res.Solver.Sec += solver.SolverSec
			mu.Unlock()
		}(w)
	}
	wg.Wait()
	if firstErr != nil {
		return nil, firstErr
	}
	if pool.timedOut {
		total.Inconclusive = append(total.Inconclusive, fmt.Sprintf("wall-clock budget of %d s exhausted with paths pending", wallS))
	}
	if pool.overflow {
		total.Inconclusive = append(total.Inconclusive, fmt.Sprintf("path budget %d exhausted with prefixes pending", ts.MaxPaths))
	}
	res.WallSec = time.Since(start).Seconds()
	ex := &Explorer{stats: total}
	if shard == nil {
		for _, c := range hs.Cover {
			if !ex.stats.Cover[c] {
				res.MissingCover = append(res.MissingCover, c)
			}
		}
		for _, r := range hs.Reach {
			if ex.stats.Reach[r] == 0 {
				res.MissingReach = append(res.MissingReach, r)
			}
		}
	}
	return res, nil
}

func cmdRun(args []string) int {
	o := parseRunOpts(args)
	spec, err := loadSpec(o.specPath)
	if err != nil {
		fmt.Fprintln(os.Stderr, err)
		return 2
	}
	return runCheck(spec, o)
}

// cmdReplay re-runs one stored counterexample against the current /repo tree: natively (go test
// with the harness overlay: the real code) and, for diagnosis, concretely in the engine.
// exit 1 + VIOLATION line when the native run fails the recorded assertion, 0 when it does not.
func cmdReplay(args []string) int {
	fs := flag.NewFlagSet("replay", flag.ExitOnError)
	specPath := fs.String("spec", "", "spec json")
	file := fs.String("file", "", "replay file")
	tier := fs.String("tier", "quick", "tier whose parameters apply if the file carries none")
	fs.Parse(args)
	spec, err := loadSpec(*specPath)
	if err != nil {
		fmt.Fprintln(os.Stderr, err)
		return 2
	}
	if abs, aerr := filepath.Abs(*file); aerr == nil {
		*file = abs
	}
	b, err := os.ReadFile(*file)
	if err != nil {
		fmt.Fprintln(os.Stderr, err)
		return 2
	}
	var rf replayFile
	if err := json.Unmarshal(b, &rf); err != nil {
		fmt.Fprintln(os.Stderr, err)
		return 2
	}
	for _, u := range spec.Units {
		hs := findHarness(u, rf.Harness)
		if hs.Func != rf.Harness || (rf.Package != "" && rf.Package != u.Package) {
			continue
		}
		p, err := loadProgram(u)
		if err != nil {
			fmt.Fprintln(os.Stderr, err)
			return 2
		}
		v := &Violation{ID: rf.Assert, Harness: rf.Harness, Nondet: rf.Nondet}
		ok, out := nativeReplay(u, p, v, *file)
		_, failed, end := runConcrete(p, u, hs, *tier, rf.Nondet)
		fmt.Printf("engine (concrete re-run): ended %s %s; failed assertions %v\n", end.kind, end.msg, failed)
		if ok {
			if os.Getenv("VERIF_REPLAY_VERBOSE") != "" {
				fmt.Println(lastLines(out, 80))
			}
			fmt.Printf("native: assertion %s fails on the current tree\nVIOLATION property=%s replay=%s\n", rf.Assert, spec.Property, *file)
			return 1
		}
		fmt.Printf("native: assertion %s does not fail on the current tree\n%s\n", rf.Assert, lastLines(out, 40))
		return 0
	}
	fmt.Fprintln(os.Stderr, "harness of the replay file not found in the spec")
	return 2
}

func sortedStrs(m map[string]bool) []string {
	var out []string
	for k := range m {
		out = append(out, k)
	}
	sort.Strings(out)
	return out
}
