package main

import (
	"fmt"
	"go/token"
	"go/types"

	"golang.org/x/tools/go/ssa"
)

func tokenAdd() token.Token { return token.ADD }

var appendBuiltin *ssa.Builtin // unused placeholder: appendBytes is used instead

// appendBytes appends string bytes to a []byte slice value.
func (in *Interp) appendBytes(dst Slice, s Value) Slice {
	var add []Value
	for _, b := range strBytes(s) {
		add = append(add, b)
	}
	return appendVals(dst, add, BV(8, 0))
}

func appendVals(dst Slice, add []Value, elemZero Value) Slice {
	if len(add) == 0 {
		return dst
	}
	if dst.arr != nil && dst.len+len(add) <= dst.cap {
		for i, e := range add {
			(*dst.arr)[dst.off+dst.len+i] = e
		}
		return Slice{arr: dst.arr, off: dst.off, len: dst.len + len(add), cap: dst.cap}
	}
	ncap := dst.cap * 2
	if ncap < dst.len+len(add) {
		ncap = dst.len + len(add)
	}
	if ncap < 4 {
		ncap = 4
	}
	arr := make([]Value, ncap)
	for i, e := range dst.elems() {
		arr[i] = e
	}
	for i, e := range add {
		arr[dst.len+i] = e
	}
	for i := dst.len + len(add); i < ncap; i++ {
		arr[i] = copyVal(elemZero)
	}
	return Slice{arr: &arr, off: 0, len: dst.len + len(add), cap: ncap}
}

func (in *Interp) callNativeObj(caller *frame, fn *NativeFn, args []Value) Value {
	if fn.fn != nil {
		return fn.fn(in, args)
	}
	h, ok := nativeMethods[fn.name]
	if !ok {
		unsup("native method %s", fn.name)
	}
	return h(in, fn.recv, args)
}

var nativeMethods = map[string]func(in *Interp, recv *NativeObj, args []Value) Value{}

func init() {
	verifIntrinsics["verifParam"] = func(in *Interp, fr *frame, args []Value) Value {
		name := argStr(args[0])
		if v, ok := in.spec.params[name]; ok {
			return BV(64, uint64(int64(v)))
		}
		return args[1]
	}
	verifIntrinsics["verifAnd"] = func(in *Interp, fr *frame, args []Value) Value { return BAnd(args[0].(*Term), args[1].(*Term)) }
	verifIntrinsics["verifOr"] = func(in *Interp, fr *frame, args []Value) Value { return BOr(args[0].(*Term), args[1].(*Term)) }
	verifIntrinsics["verifImplies"] = func(in *Interp, fr *frame, args []Value) Value {
		return BOr(BNot(args[0].(*Term)), args[1].(*Term))
	}
	verifIntrinsics["verifIte"] = func(in *Interp, fr *frame, args []Value) Value {
		return Ite(args[0].(*Term), args[1].(*Term), args[2].(*Term))
	}
	verifIntrinsics["verifObserve"] = func(in *Interp, fr *frame, args []Value) Value {
		if in.ex.fixed != nil {
			t := args[1].(*Term)
			if t.op != OpConst {
				in.ex.obs = append(in.ex.obs, fmt.Sprintf("%s=<symbolic>", argStr(args[0])))
			} else {
				in.ex.obs = append(in.ex.obs, fmt.Sprintf("%s=%d", argStr(args[0]), int64(t.c)))
			}
		}
		return nil
	}
	verifIntrinsics["verifObserveStr"] = func(in *Interp, fr *frame, args []Value) Value {
		if in.ex.fixed != nil {
			if s, ok := args[1].(string); ok {
				in.ex.obs = append(in.ex.obs, fmt.Sprintf("%s=%x", argStr(args[0]), s))
			} else {
				in.ex.obs = append(in.ex.obs, fmt.Sprintf("%s=<symbolic>", argStr(args[0])))
			}
		}
		return nil
	}
}

var _ = types.Typ
