package main

// Native side: replay of counterexamples and random concrete traces for the
// engine-vs-native differential validation (both via `go test -overlay`).

import (
	"encoding/json"
	"fmt"
	"os"
	"os/exec"
	"path/filepath"
	"strings"
	"time"
)

func workDir() string {
	d := filepath.Join(verifDir, ".work", fmt.Sprintf("w%d-%d", os.Getpid(), time.Now().UnixNano()%1000000))
	os.MkdirAll(d, 0o755)
	return d
}

// writeOverlay materialises the overlay files and returns the overlay json path.
// nativeRewrites returns overlay entries for repo files rewritten for native runs.
func nativeRewrites(u *Unit) map[string][]byte {
	out := map[string][]byte{}
	for rel, subs := range u.NativeRewrite {
		path := filepath.Join(repoDir, rel)
		b, err := os.ReadFile(path)
		if err != nil {
			continue
		}
		txt := string(b)
		for _, s := range subs {
			txt = strings.ReplaceAll(txt, s[0], s[1])
		}
		out[path] = []byte(txt)
	}
	return out
}

func writeOverlay(dir string, ov map[string][]byte, extra map[string][]byte) string {
	repl := map[string]string{}
	i := 0
	put := func(virt string, content []byte) {
		real := filepath.Join(dir, fmt.Sprintf("f%d_%s", i, filepath.Base(virt)))
		i++
		os.WriteFile(real, content, 0o644)
		repl[virt] = real
	}
	for k, v := range ov {
		put(k, v)
	}
	for k, v := range extra {
		put(k, v)
	}
	b, _ := json.Marshal(map[string]interface{}{"Replace": repl})
	p := filepath.Join(dir, "overlay.json")
	os.WriteFile(p, b, 0o644)
	return p
}

func goTestEnv() []string {
	return append(os.Environ(), "GOFLAGS=-mod=mod", "GOPROXY=off", "GOSUMDB=off", "GOTOOLCHAIN=local")
}

func nativeReplay(spec *Unit, p *Program, v *Violation, replayPath string) (bool, string) {
	attempts := 1
	if hs := findHarness(spec, v.Harness); hs.NativeAttempts > 1 {
		attempts = hs.NativeAttempts
	}
	dir := workDir()
	defer os.RemoveAll(dir)
	pdir := filepath.Join(repoDir, spec.Package)
	pname := pkgNameOf(pdir)
	test := fmt.Sprintf(`package %s

import "testing"

func TestVerifReplay(t *testing.T) {
	var failed []string
	var diverged string
	var panicked interface{}
	var assumeFailed bool
	for attempt := 0; attempt < %d; attempt++ {
		verifSt.pos, verifSt.failed, verifSt.diverged = 0, nil, ""
		failed, diverged, panicked, assumeFailed = verifRun(%s)
		if len(failed) > 0 {
			break
		}
	}
	if diverged != "" {
		t.Logf("VERIF-DIVERGED %%s", diverged)
	}
	if assumeFailed {
		t.Logf("VERIF-ASSUME-FAILED")
	}
	if panicked != nil {
		t.Logf("VERIF-PANIC %%v at %%s", panicked, verifPanicStack)
	}
	if len(failed) > 0 {
		t.Fatalf("VERIF-FAILED %%v", failed)
	}
}
`, pname, attempts, v.Harness)
	extra := nativeRewrites(spec)
	extra[filepath.Join(pdir, "zz_verif_replay_test.go")] = []byte(test)
	ovp := writeOverlay(dir, p.overlay, extra)
	cmd := exec.Command("go", "test", "-vet=off", "-count=1", "-run", "^TestVerifReplay$", "-v", "-overlay", ovp, "./"+spec.Package)
	cmd.Dir = repoDir
	cmd.Env = append(goTestEnv(), "VERIF_REPLAY="+replayPath)
	out, _ := runWithTimeout(cmd, 10*time.Minute)
	ok := strings.Contains(out, "VERIF-ASSERT-FAIL "+v.ID+"\n") || strings.Contains(out, "VERIF-ASSERT-FAIL "+v.ID+"\r")
	return ok, out
}

func runWithTimeout(cmd *exec.Cmd, d time.Duration) (string, error) {
	var sb strings.Builder
	cmd.Stdout = &sb
	cmd.Stderr = &sb
	if err := cmd.Start(); err != nil {
		return err.Error(), err
	}
	done := make(chan error, 1)
	go func() { done <- cmd.Wait() }()
	select {
	case err := <-done:
		return sb.String(), err
	case <-time.After(d):
		cmd.Process.Kill()
		<-done
		return sb.String() + "\n(timeout)", fmt.Errorf("timeout")
	}
}

// nativeTraces runs each harness natively n times with random nondet values
// and returns the recorded traces per harness.
type nativeTrace struct {
	Nondet []replayVal `json:"nondet"`
	Obs    []string    `json:"obs"`
	Failed []string    `json:"failed"`
	Assume bool        `json:"assume_failed"`
	Panic  string      `json:"panic"`
}

func nativeTraces(spec *Unit, p *Program, harnesses []string, params map[string]map[string]int, guided map[string][][]replayVal, n int, seed int64) (map[string][]nativeTrace, string, error) {
	dir := workDir()
	defer os.RemoveAll(dir)
	pdir := filepath.Join(repoDir, spec.Package)
	pname := pkgNameOf(pdir)
	var sb strings.Builder
	fmt.Fprintf(&sb, "package %s\n\nimport (\n\t\"encoding/json\"\n\t\"os\"\n\t\"testing\"\n)\n\n", pname)
	sb.WriteString("func TestVerifTraces(t *testing.T) {\n\tout := map[string][]verifTraceDoc{}\n")
	for _, h := range harnesses {
		fmt.Fprintf(&sb, "\tfor i := 0; i < %d; i++ {\n\t\tverifResetRun(uint64(%d + i*7919))\n", n, seed+1)
		fmt.Fprintf(&sb, "\t\tverifSt.doc.Params = map[string]int{")
		for k, v := range params[h] {
			fmt.Fprintf(&sb, "%q: %d, ", k, v)
		}
		sb.WriteString("}\n")
		fmt.Fprintf(&sb, "\t\t_, _, panicked, af := verifRun(%s)\n\t\tout[%q] = append(out[%q], verifTraceOf(panicked, af))\n\t}\n", h, h, h)
		// solver-guided inputs: completed paths of the symbolic run
		for _, g := range guided[h] {
			sb.WriteString("\t{\n\t\tverifResetRun(1)\n\t\tverifSt.random = false\n\t\tverifSt.doc.Nondet = []verifRec{")
			for _, rv := range g {
				fmt.Fprintf(&sb, "{%q, %q, %d}, ", rv.Name, rv.Kind, rv.V)
			}
			sb.WriteString("}\n\t\tverifSt.doc.Params = map[string]int{")
			for k, v := range params[h] {
				fmt.Fprintf(&sb, "%q: %d, ", k, v)
			}
			sb.WriteString("}\n")
			fmt.Fprintf(&sb, "\t\t_, _, panicked, af := verifRun(%s)\n\t\tout[%q] = append(out[%q], verifTraceOf(panicked, af))\n\t}\n", h, h, h)
		}
	}
	sb.WriteString("\tb, _ := json.Marshal(out)\n\tos.WriteFile(os.Getenv(\"VERIF_TRACE_OUT\"), b, 0o644)\n}\n")
	extra := nativeRewrites(spec)
	extra[filepath.Join(pdir, "zz_verif_traces_test.go")] = []byte(sb.String())
	ovp := writeOverlay(dir, p.overlay, extra)
	outFile := filepath.Join(dir, "traces.json")
	cmd := exec.Command("go", "test", "-vet=off", "-count=1", "-run", "^TestVerifTraces$", "-overlay", ovp, "./"+spec.Package)
	cmd.Dir = repoDir
	cmd.Env = append(goTestEnv(), "VERIF_TRACE_OUT="+outFile)
	out, err := runWithTimeout(cmd, 10*time.Minute)
	b, rerr := os.ReadFile(outFile)
	if rerr != nil {
		return nil, out, fmt.Errorf("native trace run failed: %v", err)
	}
	res := map[string][]nativeTrace{}
	if err := json.Unmarshal(b, &res); err != nil {
		return nil, out, err
	}
	return res, out, nil
}

// validateAgainstNative runs every harness natively on random concrete inputs
// and re-executes the same inputs in the engine; observations and assertion
// outcomes must coincide. Returns the number of traces that matched.
func validateAgainstNative(p *Program, u *Unit, results []*HarnessResult, tier string, o *runOpts) (int, []string) {
	n := 12
	if tier == "thorough" {
		n = 40
	}
	if s := os.Getenv("VERIF_NTRACES"); s != "" {
		fmt.Sscan(s, &n)
	}
	var names []string
	params := map[string]map[string]int{}
	guided := map[string][][]replayVal{}
	for _, r := range results {
		if r.unit != u {
			continue
		}
		hs := findHarness(u, r.Func)
		if hs.Native == "none" || hs.NoDiff {
			continue
		}
		names = append(names, r.Func)
		params[r.Func] = r.Params
		guided[r.Func] = r.Stats.Guided
	}
	if len(names) == 0 {
		return 0, nil
	}
	traces, out, err := nativeTraces(u, p, names, params, guided, n, o.seed)
	if err != nil {
		return 0, []string{"native trace run failed for " + u.Package + ": " + err.Error() + ": " + lastLines(out, 8)}
	}
	var problems []string
	total := 0
	for _, r := range results {
		if r.unit != u {
			continue
		}
		hs := findHarness(u, r.Func)
		matched, full := 0, 0
		for i, tr := range traces[r.Func] {
			if hs.DiffTraces > 0 && i >= hs.DiffTraces && i < n {
				continue // random traces beyond the harness's budget; guided ones (index >= n) always run
			}
			obs, failed, end := runConcrete(p, u, hs, tier, tr.Nondet)
			if tr.Panic != "" {
				// the native run panicked: the engine must see a panic on the same inputs
				if end.kind != "panic" {
					problems = append(problems, fmt.Sprintf("%s trace %d: native run panicked, engine ended %s %s; inputs %v", r.Func, i, end.kind, end.msg, tr.Nondet))
				} else {
					matched++
				}
				continue
			}
			if tr.Assume {
				if end.kind != "assume" && end.kind != "infeasible" {
					problems = append(problems, fmt.Sprintf("%s trace %d: native hit a failed assumption, engine ended %s %s", r.Func, i, end.kind, end.msg))
				} else {
					matched++
				}
				continue
			}
			if end.kind != "done" {
				problems = append(problems, fmt.Sprintf("%s trace %d: engine ended with %s (%s), native completed; inputs %v", r.Func, i, end.kind, end.msg, tr.Nondet))
				continue
			}
			if strings.Join(obs, ";") != strings.Join(tr.Obs, ";") || strings.Join(failed, ";") != strings.Join(tr.Failed, ";") {
				problems = append(problems, fmt.Sprintf("%s trace %d: engine and native disagree: engine obs=%v failed=%v; native obs=%v failed=%v; inputs %v", r.Func, i, obs, failed, tr.Obs, tr.Failed, tr.Nondet))
				continue
			}
			matched++
			full++
		}
		r.Stats.Validated = matched
		r.Stats.ValidatedFull = full
		total += matched
	}
	return total, problems
}

func runConcrete(p *Program, u *Unit, hs *HarnessSpec, tier string, vals []replayVal) (obs, failed []string, end pathEnd) {
	ts := u.tierFor(hs, tier)
	solver, err := NewSolver(solverArgvFor(u), 10000)
	if err != nil {
		return nil, nil, pathEnd{"unsupported", err.Error()}
	}
	defer solver.Close()
	// concrete re-execution may run native-only helper loops (e.g. searching a key for a slot): generous budget
	steps := ts.MaxSteps
	if steps < 400_000_000 {
		steps = 400_000_000
	}
	ex := &Explorer{solver: solver, stats: newStats(), maxSteps: steps, maxViolPerID: 1}
	ex.fixed = vals
	if ex.fixed == nil {
		ex.fixed = []replayVal{}
	}
	hu := *u
	hu.params = ts.Params
	in := p.newInterp(&hu, hs, tier, ex)
	ex.in = in
	fn := p.pkg.Func(hs.Func)
	ex.path = &Path{model: Model{}, names: map[string]int{}}
	end = in.runPath(func() { in.callSSA(nil, 0, fn, nil, nil) })
	return ex.obs, ex.failed, end
}
