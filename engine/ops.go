package main

import (
	"fmt"
	"go/constant"
	"go/token"
	"go/types"
	"math"
	"unicode/utf8"

	"golang.org/x/tools/go/ssa"
)

func constantBool(c *ssa.Const) bool     { return constant.BoolVal(c.Value) }
func constantString(c *ssa.Const) string { return constant.StringVal(c.Value) }

func isSignedT(t types.Type) bool {
	_, s, _ := intWidth(t)
	return s
}

// shiftCount normalises a shift count term to width w (saturating).
func shiftCount(y *Term, w uint8) *Term {
	if y.w == w {
		return y
	}
	if y.w < w {
		return ZExt(y, w)
	}
	// wider count: saturate
	big := Ule(BV(y.w, uint64(w)), y)
	return Ite(big, BV(w, uint64(w)), Extract(y, w-1, 0))
}

func (in *Interp) binop(op token.Token, t types.Type, x, y Value) Value {
	// arithmetic on opaque floats stays opaque (only metrics/logging consume it); comparisons are unsupported
	if _, ok := x.(OpaqueFloat); ok {
		switch op {
		case token.ADD, token.SUB, token.MUL, token.QUO:
			return OpaqueFloat{}
		}
	}
	if _, ok := y.(OpaqueFloat); ok {
		switch op {
		case token.ADD, token.SUB, token.MUL, token.QUO:
			return OpaqueFloat{}
		}
	}
	switch xv := x.(type) {
	case *Term:
		yv, ok := y.(*Term)
		if !ok {
			unsup("binop %s on *Term and %T", op, y)
		}
		if xv.w == 0 { // bool
			switch op {
			case token.EQL:
				return Eq(xv, yv)
			case token.NEQ:
				return BNot(Eq(xv, yv))
			case token.AND, token.LAND:
				return BAnd(xv, yv)
			case token.OR, token.LOR:
				return BOr(xv, yv)
			case token.XOR:
				return BNot(Eq(xv, yv))
			}
			unsup("bool binop %s", op)
		}
		signed := isSignedT(t)
		switch op {
		case token.ADD:
			return Add(xv, yv)
		case token.SUB:
			return Sub(xv, yv)
		case token.MUL:
			return Mul(xv, yv)
		case token.QUO, token.REM:
			if !in.ex.branch(Ne(yv, BV(yv.w, 0))) {
				in.rtPanic("integer divide by zero")
			}
			if op == token.QUO {
				if signed {
					return SDiv(xv, yv)
				}
				return UDiv(xv, yv)
			}
			if signed {
				return SRem(xv, yv)
			}
			return URem(xv, yv)
		case token.AND:
			return And(xv, yv)
		case token.OR:
			return Or(xv, yv)
		case token.XOR:
			return Xor(xv, yv)
		case token.AND_NOT:
			return And(xv, Not(yv))
		case token.SHL:
			return Shl(xv, shiftCount(yv, xv.w))
		case token.SHR:
			if signed {
				return AShr(xv, shiftCount(yv, xv.w))
			}
			return LShr(xv, shiftCount(yv, xv.w))
		case token.EQL:
			return Eq(xv, yv)
		case token.NEQ:
			return Ne(xv, yv)
		case token.LSS:
			if signed {
				return Slt(xv, yv)
			}
			return Ult(xv, yv)
		case token.LEQ:
			if signed {
				return Sle(xv, yv)
			}
			return Ule(xv, yv)
		case token.GTR:
			if signed {
				return Slt(yv, xv)
			}
			return Ult(yv, xv)
		case token.GEQ:
			if signed {
				return Sle(yv, xv)
			}
			return Ule(yv, xv)
		}
		unsup("int binop %s", op)
	case float64:
		yv := y.(float64)
		switch op {
		case token.ADD:
			return xv + yv
		case token.SUB:
			return xv - yv
		case token.MUL:
			return xv * yv
		case token.QUO:
			return xv / yv
		case token.EQL:
			return Bool(xv == yv)
		case token.NEQ:
			return Bool(xv != yv)
		case token.LSS:
			return Bool(xv < yv)
		case token.LEQ:
			return Bool(xv <= yv)
		case token.GTR:
			return Bool(xv > yv)
		case token.GEQ:
			return Bool(xv >= yv)
		}
	case float32:
		yv := y.(float32)
		switch op {
		case token.ADD:
			return xv + yv
		case token.SUB:
			return xv - yv
		case token.MUL:
			return xv * yv
		case token.QUO:
			return xv / yv
		case token.EQL:
			return Bool(xv == yv)
		case token.NEQ:
			return Bool(xv != yv)
		case token.LSS:
			return Bool(xv < yv)
		case token.LEQ:
			return Bool(xv <= yv)
		case token.GTR:
			return Bool(xv > yv)
		case token.GEQ:
			return Bool(xv >= yv)
		}
	case string, *SymStr:
		switch op {
		case token.ADD:
			if xs, ok := x.(string); ok {
				if ys, ok := y.(string); ok {
					return xs + ys
				}
			}
			if isOpaque(x) || isOpaque(y) {
				if s, ok := x.(string); ok && s == "" {
					return y
				}
				if s, ok := y.(string); ok && s == "" {
					return x
				}
				unsup("concatenation with opaque numeric string")
			}
			return mkStr(append(append([]*Term(nil), strBytes(x)...), strBytes(y)...))
		case token.EQL:
			return strEq(x, y)
		case token.NEQ:
			return BNot(strEq(x, y))
		case token.LSS, token.LEQ, token.GTR, token.GEQ:
			return in.strCompareOp(op, x, y)
		}
	}
	switch op {
	case token.EQL:
		return in.eqWithNil(t, x, y)
	case token.NEQ:
		return BNot(in.eqWithNil(t, x, y))
	}
	unsup("binop %s on %T,%T", op, x, y)
	return nil
}

func isOpaque(v Value) bool {
	s, ok := v.(*SymStr)
	return ok && s.opq != nil
}

func (in *Interp) eqWithNil(t types.Type, x, y Value) *Term {
	switch t.Underlying().(type) {
	case *types.Slice:
		return Bool(x.(Slice).isNil() && y.(Slice).isNil()) // one side is the nil literal
	case *types.Map:
		xm, ym := x.(*Map), y.(*Map)
		return Bool(xm == ym)
	case *types.Signature:
		return Bool(isNilFunc(x) == isNilFunc(y) && (isNilFunc(x) || false))
	}
	return equals(x, y)
}

// strCompare returns a term for lexicographic comparison.
func (in *Interp) strCompareOp(op token.Token, x, y Value) *Term {
	a, b := strBytes(x), strBytes(y)
	// lt: exists first differing position i with a[i]<b[i], or a is proper prefix
	n := len(a)
	if len(b) < n {
		n = len(b)
	}
	lt := Bool(len(a) < len(b)) // all common equal
	eqAll := Bool(len(a) == len(b))
	for i := n - 1; i >= 0; i-- {
		e := Eq(a[i], b[i])
		lt = Ite(e, lt, Ult(a[i], b[i]))
		eqAll = BAnd(e, eqAll)
	}
	switch op {
	case token.LSS:
		return lt
	case token.LEQ:
		return BOr(lt, eqAll)
	case token.GTR:
		return BNot(BOr(lt, eqAll))
	default:
		return BNot(lt)
	}
}

func (in *Interp) unop(fr *frame, instr *ssa.UnOp, x Value) Value {
	switch instr.Op {
	case token.ARROW:
		v, ok := in.chanRecv(x.(*Chan), instr.X.Type().Underlying().(*types.Chan).Elem())
		if instr.CommaOk {
			return Tuple{v, Bool(ok)}
		}
		return v
	case token.MUL:
		return in.loadFrom(x)
	case token.SUB:
		switch x := x.(type) {
		case *Term:
			return Neg(x)
		case float64:
			return -x
		case float32:
			return -x
		}
	case token.NOT:
		return BNot(x.(*Term))
	case token.XOR:
		return Not(x.(*Term))
	}
	unsup("unop %s on %T", instr.Op, x)
	return nil
}

func (in *Interp) conv(tdst, tsrc types.Type, x Value) Value {
	ud, us := tdst.Underlying(), tsrc.Underlying()
	switch us := us.(type) {
	case *types.Pointer:
		if b, ok := ud.(*types.Basic); ok && b.Kind() == types.UnsafePointer {
			return UPtr{p: x}
		}
		return x
	case *types.Slice:
		// []byte / []rune -> string
		if _, ok := ud.(*types.Basic); ok {
			s := x.(Slice)
			ek := us.Elem().Underlying().(*types.Basic).Kind()
			if ek == types.Byte {
				return sliceAsStr(s)
			}
			// []rune -> string
			var out []*Term
			for _, e := range s.elems() {
				out = append(out, in.encodeRune(e.(*Term))...)
			}
			return mkStr(out)
		}
		return x
	case *types.Basic:
		if us.Kind() == types.UnsafePointer {
			if up, ok := x.(UPtr); ok {
				if _, isPtr := ud.(*types.Pointer); isPtr {
					if up.p == nil {
						return (*Value)(nil)
					}
					return up.p
				}
				return x
			}
		}
		if us.Info()&types.IsString != 0 {
			switch ud := ud.(type) {
			case *types.Slice:
				ek := ud.Elem().Underlying().(*types.Basic).Kind()
				if ek == types.Byte {
					if o, ok := x.(*SymStr); ok && o.opq != nil {
						return Slice{opq: o, len: -1, cap: -1}
					}
					return sliceOfBytes(append([]*Term(nil), strBytes(x)...))
				}
				// []rune
				b := strBytes(x)
				var out []Value
				for i := 0; i < len(b); {
					r, sz := in.decodeRune(b[i:])
					out = append(out, r)
					i += sz
				}
				return sliceOf(out)
			case *types.Basic:
				return x
			}
		}
		if us.Info()&types.IsInteger != 0 {
			xt := x.(*Term)
			if bd, ok := ud.(*types.Basic); ok {
				if bd.Info()&types.IsString != 0 {
					// string(rune)
					return mkStr(in.encodeRune(toW(xt, 32, isSignedT(tsrc))))
				}
				if w, _, ok := intWidth(bd); ok {
					return toW(xt, w, isSignedT(tsrc))
				}
				if bd.Info()&types.IsFloat != 0 {
					if xt.op != OpConst {
						// opaque: may only be passed around (metrics, logging); any arithmetic on it is unsupported
						return OpaqueFloat{src: xt}
					}
					var f float64
					if isSignedT(tsrc) {
						f = float64(sext64(xt.c, xt.w))
					} else {
						f = float64(xt.c)
					}
					if bd.Kind() == types.Float32 {
						return float32(f)
					}
					return f
				}
				if bd.Kind() == types.UnsafePointer {
					return UPtr{p: xt}
				}
			}
		}
		if us.Info()&types.IsFloat != 0 {
			var f float64
			switch v := x.(type) {
			case float64:
				f = v
			case float32:
				f = float64(v)
			default:
				unsup("conversion from symbolic float")
			}
			if bd, ok := ud.(*types.Basic); ok {
				if w, signed, ok := intWidth(bd); ok {
					if signed {
						return BV(w, uint64(int64(f)))
					}
					if f < 0 {
						return BV(w, uint64(int64(f)))
					}
					return BV(w, uint64(f))
				}
				if bd.Kind() == types.Float32 {
					return float32(f)
				}
				return f
			}
		}
		if us.Info()&types.IsBoolean != 0 {
			return x
		}
	}
	unsup("conversion %v -> %v", tsrc, tdst)
	return nil
}

func toW(x *Term, w uint8, signed bool) *Term {
	if x.w == w {
		return x
	}
	if x.w > w {
		return Extract(x, w-1, 0)
	}
	if signed {
		return SExt(x, w)
	}
	return ZExt(x, w)
}

// encodeRune: utf8 encoding of a 32-bit rune (forks on size class).
func (in *Interp) encodeRune(r *Term) []*Term {
	if r.op == OpConst {
		buf := make([]byte, 4)
		rv := rune(int32(r.c))
		if r.c > 0x10FFFF || (r.c >= 0xD800 && r.c <= 0xDFFF) {
			rv = utf8.RuneError
		}
		n := utf8.EncodeRune(buf, rv)
		out := make([]*Term, n)
		for i := 0; i < n; i++ {
			out[i] = BV(8, uint64(buf[i]))
		}
		return out
	}
	ex := in.ex
	lo8 := func(t *Term) *Term { return Extract(t, 7, 0) }
	if ex.branch(Ult(r, BV(32, 0x80))) {
		return []*Term{lo8(r)}
	}
	if ex.branch(Ult(r, BV(32, 0x800))) {
		return []*Term{
			Or(BV(8, 0xC0), lo8(LShr(r, BV(32, 6)))),
			Or(BV(8, 0x80), And(lo8(r), BV(8, 0x3F))),
		}
	}
	invalid := BOr(Ult(BV(32, 0x10FFFF), r), BAnd(Ule(BV(32, 0xD800), r), Ule(r, BV(32, 0xDFFF))))
	if ex.branch(invalid) {
		return []*Term{BV(8, 0xEF), BV(8, 0xBF), BV(8, 0xBD)}
	}
	if ex.branch(Ult(r, BV(32, 0x10000))) {
		return []*Term{
			Or(BV(8, 0xE0), lo8(LShr(r, BV(32, 12)))),
			Or(BV(8, 0x80), And(lo8(LShr(r, BV(32, 6))), BV(8, 0x3F))),
			Or(BV(8, 0x80), And(lo8(r), BV(8, 0x3F))),
		}
	}
	return []*Term{
		Or(BV(8, 0xF0), lo8(LShr(r, BV(32, 18)))),
		Or(BV(8, 0x80), And(lo8(LShr(r, BV(32, 12))), BV(8, 0x3F))),
		Or(BV(8, 0x80), And(lo8(LShr(r, BV(32, 6))), BV(8, 0x3F))),
		Or(BV(8, 0x80), And(lo8(r), BV(8, 0x3F))),
	}
}

var _ = math.Float64bits
var _ = fmt.Sprintf
