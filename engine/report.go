package main

import (
	"os/exec"
	"encoding/json"
	"fmt"
	"go/types"
	"os"
	"path/filepath"
	"sort"
	"strings"
	"time"
)

func typesPointer(t types.Type) types.Type { return types.NewPointer(t) }

type shardSel struct {
	prefixes [][]dec
}

func cmdShard(args []string) int { return 2 }

type KnownFinding struct {
	Property string `json:"property"`
	Assert   string `json:"assert"`
	What     string `json:"what"`
	Status   string `json:"status"`
}

type KnownFindings struct {
	Findings []KnownFinding `json:"findings"`
	Fixed    []string       `json:"fixed"`
}

func loadKnown() *KnownFindings {
	var k KnownFindings
	b, err := os.ReadFile(filepath.Join(verifDir, "known_findings.json"))
	if err == nil {
		json.Unmarshal(b, &k)
	}
	return &k
}

func (k *KnownFindings) match(prop, assertID string) *KnownFinding {
	for i := range k.Findings {
		f := &k.Findings[i]
		if f.Property == prop && f.Status != "fixed" && (f.Assert == assertID || (strings.HasSuffix(f.Assert, "*") && strings.HasPrefix(assertID, strings.TrimSuffix(f.Assert, "*")))) {
			return f
		}
	}
	return nil
}

func runCheck(spec *Spec, o *runOpts) int {
	start := time.Now()
	var results []*HarnessResult
	var inconclusive []string
	progs := map[*Unit]*Program{}
	loadS := 0.0
	for _, u := range spec.Units {
		fmt.Printf("== %s tier=%s: loading ./%s from %s\n", spec.Property, o.tier, u.Package, repoDir)
		p, err := loadProgram(u)
		if err != nil {
			fmt.Fprintln(os.Stderr, "load failed:", err)
			inconclusive = append(inconclusive, "load of "+u.Package+" failed: "+err.Error())
			continue
		}
		progs[u] = p
		loadS += p.loadSec
		fmt.Printf("   loaded in %.1fs\n", p.loadSec)
		for i := range u.Harnesses {
			hs := &u.Harnesses[i]
			if o.only != "" && hs.Func != o.only {
				continue
			}
			if u.tierFor(hs, o.tier).Skip {
				continue
			}
			res, err := runHarness(p, u, hs, o.tier, o, nil)
			if err != nil {
				fmt.Fprintln(os.Stderr, "harness error:", err)
				inconclusive = append(inconclusive, hs.Func+": "+err.Error())
				continue
			}
			res.unit = u
			results = append(results, res)
			st := res.Stats
			fmt.Printf("   %-34s paths=%d (done %d, pruned %d) asserts=%d+%dconst queries=%d (sat %d unsat %d unknown %d) solver=%.1fs wall=%.1fs steps=%d viol=%d\n",
				hs.Func, st.Paths, st.PathsDone, st.PathsAssume, st.Asserts, st.AssertsConst, res.Solver.Queries, res.Solver.Sat, res.Solver.Unsat, res.Solver.Unknown,
				res.Solver.Sec, res.WallSec, st.Steps, len(st.Violations))
			for _, m := range st.Inconclusive {
				inconclusive = append(inconclusive, hs.Func+": "+m)
			}
			for _, c := range res.MissingCover {
				inconclusive = append(inconclusive, hs.Func+": cover goal not witnessed (vacuity guard): "+c)
			}
			for _, c := range res.MissingReach {
				inconclusive = append(inconclusive, hs.Func+": reach label not hit (vacuity guard): "+c)
			}
			for _, v := range st.Violations {
				v.Harness = hs.Func
			}
		}
		if !o.noNative {
			nval, problems := validateAgainstNative(p, u, results, o.tier, o)
			nfull := 0
			for _, r := range results {
				if r.unit == u {
					nfull += r.Stats.ValidatedFull
				}
			}
			if len(results) > 0 && (nval > 0 || len(problems) > 0) {
				fmt.Printf("   engine-vs-native differential: %d concrete traces agree (%d ran to completion, the rest stopped at the same assumption)\n", nval, nfull)
			}
			for _, pr := range problems {
				inconclusive = append(inconclusive, "translator validation: "+pr)
			}
		}
	}
	// violations: native replay + known findings
	known := loadKnown()
	exit := 0
	nviol := 0
	seenKnown := map[string]bool{}
	for _, res := range results {
		u := res.unit
		hs := findHarness(u, res.Func)
		for _, v := range res.Stats.Violations {
			if !spec.ownsAssert(v.ID) {
				continue
			}
			rp := writeReplay(spec, u, v, res.Params)
			v.ReplayFile = rp
			if !o.noNative && hs.Native != "none" {
				ok, out := nativeReplay(u, progs[u], v, rp)
				if ok {
					v.Native = "reproduced"
				} else if kf := known.match(spec.Property, v.ID); kf != nil {
					// a recorded finding (confirmed natively when it was recorded): a racy native schedule that
					// does not hit the window this time does not make the run inconclusive
					v.Native = "not-reproduced-this-run"
				} else {
					v.Native = "not-reproduced"
					inconclusive = append(inconclusive, fmt.Sprintf("%s: counterexample for %s did not reproduce natively (engine/stub mismatch?) replay=%s: %s", res.Func, v.ID, rp, lastLines(out, 6)))
					continue
				}
			} else {
				v.Native = "engine-only"
			}
			if kf := known.match(spec.Property, v.ID); kf != nil {
				if !seenKnown[kf.Assert] {
					seenKnown[kf.Assert] = true
					fmt.Printf("KNOWN-FINDING: property=%s %s [%s]\n", spec.Property, kf.What, kf.Assert)
				}
				continue
			}
			nviol++
			exit = 1
			line := fmt.Sprintf("VIOLATION property=%s replay=%s", spec.Property, rp)
			fmt.Printf("%s\n   assert=%s harness=%s native=%s %s\n", line, v.ID, v.Harness, v.Native, witnessStr(v))
		}
	}
	if exit == 0 && len(inconclusive) > 0 {
		exit = 2
	}
	for _, m := range inconclusive {
		fmt.Println("INCONCLUSIVE:", m)
	}
	writeEvidence(spec, o, loadS, results, inconclusive, time.Since(start).Seconds(), nviol)
	switch exit {
	case 0:
		fmt.Printf("== %s: HOLDS within the stated bounds (%.1fs)\n", spec.Property, time.Since(start).Seconds())
	case 1:
		fmt.Printf("== %s: VIOLATED (%d)\n", spec.Property, nviol)
	default:
		fmt.Printf("== %s: INCONCLUSIVE\n", spec.Property)
	}
	return exit
}

func (s *Spec) ownsAssert(id string) bool {
	if len(s.AssertPrefixes) == 0 {
		return true
	}
	for _, p := range s.AssertPrefixes {
		if strings.HasPrefix(id, p) {
			return true
		}
	}
	return false
}

func lastLines(s string, n int) string {
	ls := strings.Split(strings.TrimSpace(s), "\n")
	if len(ls) > n {
		ls = ls[len(ls)-n:]
	}
	return strings.Join(ls, " / ")
}

func witnessStr(v *Violation) string {
	var sb strings.Builder
	sb.WriteString("witness:")
	for i, r := range v.Nondet {
		if i > 40 {
			sb.WriteString(" …")
			break
		}
		fmt.Fprintf(&sb, " %s=%d", r.Name, r.V)
	}
	if len(v.Notes) > 0 {
		sb.WriteString(" notes=" + strings.Join(v.Notes, "|"))
	}
	return sb.String()
}

func findHarness(spec *Unit, fn string) *HarnessSpec {
	for i := range spec.Harnesses {
		if spec.Harnesses[i].Func == fn {
			return &spec.Harnesses[i]
		}
	}
	return &HarnessSpec{}
}

type replayFile struct {
	Property string         `json:"property"`
	Harness  string         `json:"harness"`
	Package  string         `json:"package"`
	Assert   string         `json:"assert"`
	Params   map[string]int `json:"params"`
	Nondet   []replayVal    `json:"nondet"`
	Decisions []dec         `json:"decisions"`
	Notes    []string       `json:"notes"`
}

func writeReplay(spec *Spec, u *Unit, v *Violation, params map[string]int) string {
	dir := filepath.Join(outDir(), "replays", spec.Property)
	os.MkdirAll(dir, 0o755)
	name := fmt.Sprintf("%s-%s-%d.json", v.Harness, sanitize(v.ID), time.Now().UnixNano()%1000000)
	path := filepath.Join(dir, name)
	rf := replayFile{Property: spec.Property, Harness: v.Harness, Package: u.Package, Assert: v.ID, Params: params, Nondet: v.Nondet, Decisions: v.Decisions, Notes: v.Notes}
	b, _ := json.MarshalIndent(rf, "", " ")
	os.WriteFile(path, b, 0o644)
	return path
}

func sanitize(s string) string {
	var sb strings.Builder
	for _, c := range s {
		if (c >= 'a' && c <= 'z') || (c >= 'A' && c <= 'Z') || (c >= '0' && c <= '9') || c == '-' || c == '_' || c == '.' {
			sb.WriteRune(c)
		} else {
			sb.WriteByte('_')
		}
	}
	return sb.String()
}

// ---- evidence ----

func writeEvidence(spec *Spec, o *runOpts, loadS float64, results []*HarnessResult, inconclusive []string, wall float64, nviol int) {
	states, transitions := 0, 0
	funcs := map[string]bool{}
	stubs := map[string]bool{}
	for _, u := range spec.Units {
		for file, subs := range u.Rewrite {
			for _, sb := range subs {
				stubs[fmt.Sprintf("source rewrite (%s %s): %q -> %q", u.Package, file, sb[0], sb[1])] = true
			}
		}
		for file, subs := range u.NativeRewrite {
			for _, sb := range subs {
				stubs[fmt.Sprintf("source rewrite, native runs only (%s): %q -> %q", file, sb[0], sb[1])] = true
			}
		}
	}
	var samples []interface{}
	q := map[string]interface{}{}
	qs, qu, qk := 0, 0, 0
	solverS := 0.0
	obligations := 0
	cover := map[string]bool{}
	reach := map[string]int{}
	perH := []interface{}{}
	validated := 0
	for _, r := range results {
		st := r.Stats
		states += st.PathsDone + st.PathsAssume
		transitions += r.Solver.Queries + st.Paths
		obligations += st.Asserts + st.AssertsConst
		qs += r.Solver.Sat
		qu += r.Solver.Unsat
		qk += r.Solver.Unknown
		solverS += r.Solver.Sec
		validated += st.Validated
		for f := range st.Funcs {
			funcs[f] = true
		}
		for f := range st.Stubs {
			stubs[f] = true
		}
		for k, v := range st.Cover {
			cover[r.Func+":"+k] = v
		}
		for k, v := range st.Reach {
			reach[r.Func+":"+k] = v
		}
		for i, s := range st.Samples {
			if i < 3 {
				samples = append(samples, map[string]interface{}{"harness": r.Func, "path": s})
			}
		}
		perH = append(perH, map[string]interface{}{
			"harness": r.Func, "params": r.Params, "paths": st.Paths, "paths_completed": st.PathsDone, "paths_pruned_by_assume": st.PathsAssume,
			"assert_checks": st.Asserts, "assert_checks_constant": st.AssertsConst, "queries": r.Solver.Queries, "solver_s": round2(r.Solver.Sec), "wall_s": round2(r.WallSec),
			"ssa_steps": st.Steps, "violations": len(st.Violations), "traces_validated": st.Validated, "traces_validated_to_completion": st.ValidatedFull,
		})
	}
	if len(samples) == 0 {
		samples = append(samples, map[string]interface{}{"note": "no completed path"})
	}
	q["sat"], q["unsat"], q["unknown"] = qs, qu, qk
	var fnList []string
	for f := range funcs {
		if !strings.Contains(f, "verif") && !strings.Contains(f, "Verif") {
			fnList = append(fnList, f)
		}
	}
	sort.Strings(fnList)
	level := spec.Level
	if level == "" {
		level = "model_checking"
	}
	if states == 0 {
		states = 0
	}
	cov := map[string]interface{}{
		"states":                        states,
		"transitions":                   transitions,
		"traces_validated_against_impl": validated,
		"samples":                       samples,
		"exhaustive":                    len(inconclusive) == 0,
		"explanation":                   "states = feasible symbolic paths fully executed (each covers all inputs satisfying its path condition); transitions = decision edges explored: SMT queries discharged by the solver (branch feasibility + assertion obligations; conditions that fold to a constant need none) plus one per explored path (its last, distinguishing decision); obligations = assertion sites checked (pc ∧ ¬assert must be unsat)",
		"obligations":                   obligations,
		"functions_encoded":             fnList,
		"stubs":                         sortedStrs(stubs),
		"bounds":                        spec.Bounds,
		"outside_claim":                 spec.Outside,
		"queries":                       q,
		"solver_s":                      round2(solverS),
		"solver":                        solverName() + "; one process per worker over a pipe, push/pop; any (error line or unknown => inconclusive",
		"cover_goals":                   cover,
		"reach":                         reach,
		"harnesses":                     perH,
		"inconclusive":                  inconclusive,
		"encoding":                      "go/ssa of /repo working tree + overlay harness, rebuilt this run (x/tools v0.29.0)",
	}
	cov["load_s"] = round2(loadS)
	ev := map[string]interface{}{
		"property_id": spec.Property,
		"tier":        o.tier,
		"seed":        o.seed,
		"level":       level,
		"coverage":    cov,
		"assumptions": spec.Assumptions,
		"wall_s":      round2(wall),
		"violations":  nviol,
	}
	if spec.Assumptions == nil {
		ev["assumptions"] = []string{}
	}
	// which tree was examined
	head, _ := exec.Command("git", "-C", repoDir, "rev-parse", "--short", "HEAD").Output()
	dirty, _ := exec.Command("git", "-C", repoDir, "status", "--porcelain").Output()
	ev["repo_head"] = strings.TrimSpace(string(head))
	ev["repo_worktree_modified"] = len(strings.TrimSpace(string(dirty))) > 0
	ev["params"] = tierParams(spec, o.tier)
	ev["finished_at"] = time.Now().UTC().Format(time.RFC3339)
	// keep a summary of the latest run of the other tier (this file is rewritten by every run)
	evPath := filepath.Join(outDir(), "evidence", spec.Property+".json")
	others := map[string]interface{}{}
	if ob, err := os.ReadFile(evPath); err == nil {
		var old map[string]interface{}
		if json.Unmarshal(ob, &old) == nil {
			if m, ok := old["other_tier_runs"].(map[string]interface{}); ok {
				others = m
			}
			if ot, _ := old["tier"].(string); ot != "" && ot != o.tier {
				sum := map[string]interface{}{"wall_s": old["wall_s"], "violations": old["violations"], "repo_head": old["repo_head"],
					"repo_worktree_modified": old["repo_worktree_modified"], "finished_at": old["finished_at"], "params": old["params"]}
				if oc, ok := old["coverage"].(map[string]interface{}); ok {
					for _, k := range []string{"states", "transitions", "obligations", "queries", "solver_s", "traces_validated_against_impl", "inconclusive", "exhaustive"} {
						sum[k] = oc[k]
					}
				}
				others[ot] = sum
			}
		}
	}
	delete(others, o.tier)
	ev["other_tier_runs"] = others
	os.MkdirAll(filepath.Join(outDir(), "evidence"), 0o755)
	b, _ := json.MarshalIndent(ev, "", " ")
	os.WriteFile(filepath.Join(outDir(), "evidence", spec.Property+".json"), b, 0o644)
}

func tierParams(spec *Spec, tier string) map[string]int {
	if t, ok := spec.Tiers[tier]; ok {
		return t.Params
	}
	return nil
}

// outDir: where evidence and replay files go (VERIF_OUT redirects them, e.g. for runs against a
// scratch copy of the repository with a seeded change, so that /verif/evidence keeps describing /repo)
func outDir() string {
	if d := os.Getenv("VERIF_OUT"); d != "" {
		return d
	}
	return verifDir
}

func round2(f float64) float64 { return float64(int(f*100+0.5)) / 100 }
