package main

// Cooperative scheduler: every interpreted goroutine runs on a real goroutine
// but only the holder of the baton executes. Context switches happen when the
// running goroutine blocks (or, within the preemption bound, at a
// synchronisation operation); which runnable goroutine proceeds is a decision.

import (
	"fmt"
	"os"
	"go/types"
	"sync"

	"golang.org/x/tools/go/ssa"
)

type abortG struct{}

type G struct {
	id      int
	name    string
	wake    chan struct{}
	done    bool
	ready   func() bool // nil = runnable
	waitsOn string
	yielding bool
	timers  []*Chan // one-shot timers of the select this goroutine is blocked in
}

type Sched struct {
	in      *Interp
	gs      []*G
	cur     *G
	main    *G
	aborted bool
	pending *pathEnd // raised by a non-main goroutine
	pendingPanic interface{}
	wg      sync.WaitGroup
	chanSeq int
	vnow    int64 // virtual time (ns): advances to a timer's deadline when it fires because nothing can run
	idleFires int
}

func (s *Sched) nextChanID() int { s.chanSeq++; return s.chanSeq }

type Chan struct {
	id     int
	cap    int
	rdv    bool // the slot was filled while a receiver was already waiting (completed rendezvous)
	buf    []Value
	closed bool
	// unbuffered rendezvous: slot holds one value until taken
	slotFull  bool
	slot      Value
	takenSeq  int
	recvWait  int
	env       string // "" | "ticker" | "done": readiness decided by the environment
	envClosed bool
	deadline  int64 // one-shot timers: virtual time (ns) at which it fires
}

func newSched(in *Interp) *Sched {
	s := &Sched{in: in}
	g := &G{id: 0, name: "main", wake: make(chan struct{}, 1)}
	s.gs = []*G{g}
	s.cur, s.main = g, g
	return s
}

func (s *Sched) spawn(name string, body func()) {
	g := &G{id: len(s.gs), name: name, wake: make(chan struct{}, 1)}
	s.gs = append(s.gs, g)
	s.wg.Add(1)
	go func() {
		defer s.wg.Done()
		<-g.wake
		defer func() {
			r := recover()
			g.done = true
			switch r := r.(type) {
			case nil:
			case abortG:
				return
			case pathEnd:
				if s.pending == nil {
					s.pending = &r
				}
			case unsupported:
				if s.pending == nil {
					s.pending = &pathEnd{"unsupported", r.msg}
				}
			case targetPanic:
				if s.pending == nil {
					s.pending = &pathEnd{"panic", "in goroutine " + g.name + ": " + fmtValue(r.v)}
				}
			default:
				if s.pendingPanic == nil {
					s.pendingPanic = r
				}
				if s.pending == nil {
					s.pending = &pathEnd{"unsupported", fmt.Sprintf("engine panic in goroutine: %v", r)}
				}
			}
			if s.aborted {
				return
			}
			// hand the baton on
			s.handoff(g)
		}()
		if s.aborted {
			panic(abortG{})
		}
		body()
	}()
}

// handoff passes the baton from a finished goroutine.
func (s *Sched) handoff(from *G) {
	if s.pending != nil {
		s.wakeG(s.main)
		return
	}
	next := s.pick()
	if next == nil && s.fireIdleTimer() {
		next = s.pick()
	}
	if next == nil {
		// nothing runnable: main must be blocked => deadlock, let main report it
		s.wakeG(s.main)
		return
	}
	s.wakeG(next)
}

// fireIdleTimer: nothing can run - time passes. One of the one-shot timers that blocked selects are
// waiting on fires (which one is a decision of the exploration when there are several).
func (s *Sched) fireIdleTimer() bool {
	var cands []*Chan
	for _, g := range s.gs {
		if g.done {
			continue
		}
		for _, c := range g.timers {
			if c.env == "timer" && !c.envClosed {
				cands = append(cands, c)
			}
		}
	}
	if len(cands) == 0 || s.idleFires >= maxIdleFires {
		return false
	}
	// discrete-event time: the timer with the earliest deadline fires (ties: the exploration decides)
	min := cands[0].deadline
	for _, c := range cands {
		if c.deadline < min {
			min = c.deadline
		}
	}
	var first []*Chan
	for _, c := range cands {
		if c.deadline == min {
			first = append(first, c)
		}
	}
	k := 0
	if len(first) > 1 {
		k = s.in.ex.choose(len(first), "timer")
	}
	first[k].envClosed = true
	if min > s.vnow {
		s.vnow = min
	}
	s.idleFires++
	return true
}

// maxIdleFires bounds how often time may pass per path because nothing can run (periodic timers such
// as progress loggers would otherwise keep a deadlocked path alive for ever)
const maxIdleFires = 24

// newTimerChan: a one-shot timer of duration d (ns; unknown/symbolic durations count as one second)
func (s *Sched) newTimerChan(d Value) *Chan {
	dl := int64(1000000000)
	if t, ok := d.(*Term); ok && t.op == OpConst {
		dl = int64(t.c)
	}
	if dl < 0 {
		dl = 0
	}
	return &Chan{id: s.nextChanID(), env: "timer", deadline: s.vnow + dl}
}

func (s *Sched) wakeG(g *G) {
	s.cur = g
	g.wake <- struct{}{}
}

func (s *Sched) runnable() []*G {
	var out []*G
	for _, g := range s.gs {
		if g.done {
			continue
		}
		if g.ready == nil || g.ready() {
			out = append(out, g)
		}
	}
	return out
}

func (s *Sched) pick() *G {
	r := s.runnable()
	// a goroutine that merely yields is chosen only when nobody else can run
	var ny []*G
	for _, g := range r {
		if !g.yielding {
			ny = append(ny, g)
		}
	}
	if len(ny) > 0 {
		r = ny
	}
	if len(r) == 0 {
		return nil
	}
	if len(r) == 1 {
		return r[0]
	}
	if s.in.spec == nil || !s.in.spec.SchedForks {
		// deterministic policy: round-robin after the current goroutine (select outcomes and
		// harness choices remain the explored nondeterminism)
		cur := -1
		if s.cur != nil {
			cur = s.cur.id
		}
		for _, g := range r {
			if g.id > cur {
				return g
			}
		}
		return r[0]
	}
	k := s.in.ex.choose(len(r), "sched")
	return r[k]
}

// block suspends the current goroutine until ready() holds.
func (s *Sched) others() string {
	out := ""
	for _, g := range s.gs {
		if g != s.main && !g.done {
			out += "; g" + fmt.Sprint(g.id) + " waits on " + g.waitsOn
		}
	}
	return out
}

func (s *Sched) block(ready func() bool, what string) {
	g := s.cur
	if len(s.gs) == 1 && ready() {
		return
	}
	g.ready = ready
	g.waitsOn = what
	for {
		next := s.pick()
		if next == nil && s.fireIdleTimer() {
			next = s.pick()
		}
		if next == nil {
			if g == s.main {
				g.ready = nil
				panic(pathEnd{"deadlock", "all goroutines blocked; main waits on " + what + s.others()})
			}
			// let main report
			s.wakeG(s.main)
		} else if next == g {
			g.ready = nil
			return
		} else {
			s.wakeG(next)
		}
		<-g.wake
		if s.aborted {
			panic(abortG{})
		}
		if g == s.main && s.pending != nil {
			p := *s.pending
			panic(p)
		}
		if g.ready == nil || g.ready() {
			g.ready = nil
			return
		}
		if g == s.main {
			// woken to report a deadlock
			if len(s.runnable()) == 0 && !s.fireIdleTimer() {
				g.ready = nil
				panic(pathEnd{"deadlock", "all goroutines blocked; main waits on " + what + s.others()})
			}
		}
	}
}

// othersFirst lets every other runnable goroutine run until it blocks or ends
// before the current one performs a blocking operation (receive/select): what
// arrives "later" is then represented by the environment/scheduling decisions
// taken at the operation itself.
func (s *Sched) othersFirst() {
	if len(s.gs) == 1 {
		return
	}
	g := s.cur
	for {
		others := false
		for _, o := range s.runnable() {
			if o != g && !o.yielding {
				others = true
			}
		}
		if !others {
			return
		}
		g.yielding = true
		s.block(func() bool { return true }, "yield")
		g.yielding = false
	}
}

// yield lets other goroutines run (used at preemption points).
func (s *Sched) maybePreempt() {
	if len(s.gs) == 1 {
		return
	}
	p := s.in.ex.path
	if s.in.spec == nil || p.preempts >= s.in.spec.Preemptions {
		return
	}
	r := s.runnable()
	if len(r) <= 1 {
		return
	}
	k := s.in.ex.choose(2, "preempt")
	if k == 0 {
		return
	}
	p.preempts++
	g := s.cur
	// run someone else: mark self runnable but not chosen this time
	others := []*G{}
	for _, o := range r {
		if o != g {
			others = append(others, o)
		}
	}
	var next *G
	if len(others) == 1 {
		next = others[0]
	} else {
		next = others[s.in.ex.choose(len(others), "sched")]
	}
	s.wakeG(next)
	<-g.wake
	if s.aborted {
		panic(abortG{})
	}
	if g == s.main && s.pending != nil {
		panic(*s.pending)
	}
}

// abortAll releases every parked goroutine at the end of a path.
func (s *Sched) abortAll() {
	s.aborted = true
	for _, g := range s.gs[1:] {
		if !g.done {
			select {
			case g.wake <- struct{}{}:
			default:
			}
		}
	}
	s.wg.Wait()
}

// runPath executes run() as the main goroutine of a fresh path.
func (in *Interp) runPath(run func()) (end pathEnd) {
	in.sched = newSched(in)
	in.globals = map[*ssa.Global]*Value{}
	in.initDone = map[*ssa.Package]bool{}
	in.syncMaps = nil
	in.randSeq = 0
	in.jsonSeq, in.jsonVals = 0, nil
	in.bgCtx = nil
	in.lastClock = nil
	defer func() {
		r := recover()
		in.sched.abortAll()
		if pp := in.sched.pendingPanic; pp != nil {
			if ep, ok := pp.(enginePanic); ok {
				// the engine met something it cannot interpret (e.g. reflection): this path is
				// inconclusive; the other paths and their verdicts stand
				if os.Getenv("GOSYM_STACK") != "" {
					fmt.Fprintln(os.Stderr, ep.msg)
					fmt.Fprintln(os.Stderr, ep.stack)
				}
				end = pathEnd{"unsupported", ep.msg}
				return
			}
			panic(pp)
		}
		switch r := r.(type) {
		case nil:
			end = pathEnd{"done", ""}
		case pathEnd:
			end = r
		case unsupported:
			end = pathEnd{"unsupported", r.msg}
		case targetPanic:
			end = pathEnd{"panic", fmtValue(r.v)}
		case enginePanic:
			if os.Getenv("GOSYM_STACK") != "" {
				fmt.Fprintln(os.Stderr, r.msg)
				fmt.Fprintln(os.Stderr, r.stack)
			}
			end = pathEnd{"unsupported", r.msg}
		default:
			panic(r)
		}
	}()
	run()
	return
}

// ---- channels ----

func (c *Chan) canRecv() bool {
	if c.env != "" {
		return c.envClosed
	}
	return len(c.buf) > 0 || c.slotFull || c.closed
}

func (c *Chan) canSend() bool {
	if c.closed {
		return true // will panic
	}
	if c.cap > 0 {
		return len(c.buf) < c.cap
	}
	return !c.slotFull && c.recvWait > 0
}

func (in *Interp) chanSend(c *Chan, v Value) {
	s := in.sched
	if c == nil {
		s.block(func() bool { return false }, "send on nil channel")
	}
	s.maybePreempt()
	if c.closed {
		in.rtPanic("send on closed channel")
	}
	if c.cap > 0 {
		if len(c.buf) >= c.cap {
			s.block(func() bool { return len(c.buf) < c.cap || c.closed }, fmt.Sprintf("send chan#%d", c.id))
			if c.closed {
				in.rtPanic("send on closed channel")
			}
		}
		c.buf = append(c.buf, copyVal(v))
		return
	}
	// unbuffered: deposit, then wait until taken
	if c.slotFull {
		s.block(func() bool { return !c.slotFull || c.closed }, fmt.Sprintf("send chan#%d", c.id))
		if c.closed {
			in.rtPanic("send on closed channel")
		}
	}
	c.slotFull = true
	c.rdv = c.recvWait > 0
	c.slot = copyVal(v)
	seq := c.takenSeq
	s.block(func() bool { return c.takenSeq != seq || c.closed }, fmt.Sprintf("send(rendezvous) chan#%d", c.id))
	if c.takenSeq == seq && c.closed {
		in.rtPanic("send on closed channel")
	}
}

func (c *Chan) take() (Value, bool) {
	if len(c.buf) > 0 {
		v := c.buf[0]
		c.buf = c.buf[1:]
		return v, true
	}
	if c.slotFull {
		v := c.slot
		c.slot = nil
		c.slotFull = false
		c.rdv = false
		c.takenSeq++
		return v, true
	}
	return nil, false
}

func (in *Interp) chanRecv(c *Chan, elemT types.Type) (Value, bool) {
	s := in.sched
	if c == nil {
		s.block(func() bool { return false }, "receive on nil channel")
	}
	s.maybePreempt()
	if c.env == "spent" {
		s.block(func() bool { return false }, "receive on a timer that already fired")
	}
	if c.env != "" {
		// environment channel: a blocking receive returns when the environment fires
		if c.env == "done" {
			c.envClosed = true
			return zero(elemT), false
		}
		if c.env == "timer" {
			c.env = "spent"
			if c.deadline > s.vnow {
				s.vnow = c.deadline
			}
		}
		return zero(elemT), true
	}
	if !c.canRecv() {
		c.recvWait++
		s.block(c.canRecv, fmt.Sprintf("recv chan#%d", c.id))
		c.recvWait--
	}
	if v, ok := c.take(); ok {
		return v, true
	}
	return zero(elemT), false // closed
}

func (in *Interp) chanClose(c *Chan) {
	if c == nil {
		in.rtPanic("close of nil channel")
	}
	if c.closed {
		in.rtPanic("close of closed channel")
	}
	c.closed = true
}

// selectOp implements ssa.Select.
func (in *Interp) selectOp(instr *ssa.Select, fr *frame) Value {
	s := in.sched
	s.maybePreempt()
	if instr.Blocking {
		s.othersFirst()
	}
	type st struct {
		c    *Chan
		send Value
		dir  types.ChanDir
	}
	states := make([]st, len(instr.States))
	for i, x := range instr.States {
		states[i] = st{c: fr.get(x.Chan).(*Chan), dir: x.Dir}
		if x.Send != nil {
			states[i].send = fr.get(x.Send)
		}
	}
	readyNow := func() []int {
		var r []int
		// a value handed over on an unbuffered channel while this select was waiting is a completed
		// rendezvous: the receiver is committed to that case
		for i, x := range states {
			if x.c != nil && x.dir == types.RecvOnly && x.c.env == "" && x.c.cap == 0 && x.c.slotFull && x.c.rdv {
				r = append(r, i)
			}
		}
		if len(r) > 0 {
			return r
		}
		for i, x := range states {
			if x.c == nil {
				continue
			}
			if x.dir == types.RecvOnly {
				if x.c.env == "" && x.c.canRecv() {
					r = append(r, i)
				} else if x.c.env != "" && x.c.env != "spent" && x.c.envClosed {
					r = append(r, i)
				}
			} else if x.c.canSend() {
				r = append(r, i)
			}
		}
		return r
	}
	envCands := func() []int {
		var r []int
		for i, x := range states {
			if x.c != nil && x.dir == types.RecvOnly && (x.c.env == "ticker" || x.c.env == "done") && !x.c.envClosed {
				r = append(r, i)
			}
		}
		return r
	}
	chosen := -1
	for chosen < 0 {
		ready := readyNow()
		env := envCands()
		p := in.ex.path
		budget := 0
		if in.spec != nil {
			budget = in.spec.EnvFires
		}
		if p.envFires >= budget {
			env = nil
		}
		// alternatives: each ready case, each env case that may fire, default (if non-blocking and nothing... default is taken only when nothing is ready)
		alts := append(append([]int(nil), ready...), env...)
		if len(alts) == 0 {
			if !instr.Blocking {
				break // default
			}
			// one-shot timers fire when nothing else can happen (time passes while everything is idle):
			// the scheduler fires one of the pending timers when no goroutine can run (fireIdleTimer)
			s.cur.timers = nil
			for _, x := range states {
				if x.c != nil && x.dir == types.RecvOnly && x.c.env == "timer" && !x.c.envClosed {
					s.cur.timers = append(s.cur.timers, x.c)
				}
			}
			me := s.cur
			// block until some non-env case becomes ready
			for i := range states {
				if states[i].c != nil && states[i].dir == types.RecvOnly {
					states[i].c.recvWait++
				}
			}
			s.block(func() bool { return len(readyNow()) > 0 }, "select")
			me.timers = nil
			for i := range states {
				if states[i].c != nil && states[i].dir == types.RecvOnly {
					states[i].c.recvWait--
				}
			}
			continue
		}
		nalt := len(alts)
		if !instr.Blocking && len(ready) == 0 {
			nalt++ // default is possible when only env cases could fire
		}
		k := in.ex.choose(nalt, "select")
		if k >= len(alts) {
			break // default
		}
		chosen = alts[k]
		if k >= len(ready) {
			p.envFires++
			c := states[chosen].c
			if c.env == "done" {
				c.envClosed = true
			}
		}
	}
	r := Tuple{BV(64, uint64(int64(chosen))), False}
	// perform
	var recvVal Value
	recvOk := false
	if chosen >= 0 {
		x := states[chosen]
		if x.dir == types.RecvOnly {
			if x.c.env != "" {
				recvVal = nil
				recvOk = x.c.env != "done"
			} else if v, ok := x.c.take(); ok {
				recvVal, recvOk = v, true
			}
		} else {
			if x.c.closed {
				in.rtPanic("send on closed channel")
			}
			if x.c.cap > 0 {
				x.c.buf = append(x.c.buf, copyVal(x.send))
			} else {
				x.c.slotFull = true
				x.c.rdv = true
				x.c.slot = copyVal(x.send)
				// a receiver is waiting (canSend): rendezvous - the send completes when it has taken the value
				seq := x.c.takenSeq
				c := x.c
				s.block(func() bool { return c.takenSeq != seq || c.closed }, fmt.Sprintf("select-send(rendezvous) chan#%d", c.id))
			}
		}
	}
	r[1] = Bool(recvOk)
	for i, x := range instr.States {
		if x.Dir == types.RecvOnly {
			var v Value
			if i == chosen && recvOk && recvVal != nil {
				v = recvVal
			} else {
				v = zero(x.Chan.Type().Underlying().(*types.Chan).Elem())
			}
			r = append(r, v)
		}
	}
	return r
}

// ---- native objects (contexts etc.) ----

type NativeObj struct {
	kind     string
	f        map[string]Value
	parent   *NativeObj
	children []*NativeObj
}

type NativeFn struct {
	name string
	recv *NativeObj
	fn   func(in *Interp, args []Value) Value
}
