package main

// Solver: one long-lived `z3 -in` process. The assertion stack mirrors the
// current path condition (one push level per constraint); queries are
// check-sat-assuming on top of it. Any "(error" line => inconclusive.

import (
	"sync"
	"bufio"
	"fmt"
	"io"
	"os"
	"os/exec"
	"strconv"
	"strings"
	"time"
)

type SatResult int

const (
	Unsat SatResult = iota
	Sat
	Unknown
)

func (r SatResult) String() string { return [...]string{"unsat", "sat", "unknown"}[r] }

type Solver struct {
	cmd   *exec.Cmd
	in    io.WriteCloser
	out   *bufio.Reader
	argv  []string
	stack []*Term // asserted constraints, one push level each
	// definitions: term id -> level at which it was defined
	defLevel  map[int32]int
	defStack  [][]int32 // per level: ids defined at that level
	nTables   int
	timeoutMs int
	logf      *os.File

	Queries   int
	NSat      int
	NUnsat    int
	NUnknown  int
	SolverSec float64
	Errors    []string
}

// solverArgv: the deciding solver. GOSYM_SOLVER overrides; default is the newer
// z3 (5.1.0, `z3-new`) when present - it decides the CRC/table heavy queries two
// orders of magnitude faster than 4.8.12 - else /usr/bin/z3.
func solverArgv() []string {
	if s := os.Getenv("GOSYM_SOLVER"); s != "" {
		return strings.Fields(s)
	}
	if p, err := exec.LookPath("z3-new"); err == nil {
		return []string{p, "-in"}
	}
	return []string{"z3", "-in"}
}

// solverArgvFor: the unit's own solver if its spec names one (GOSYM_SOLVER still overrides)
func solverArgvFor(u *Unit) []string {
	if os.Getenv("GOSYM_SOLVER") == "" && u != nil && u.Solver != "" {
		usedSolversMu.Lock()
		usedSolvers[u.Solver] = true
		usedSolversMu.Unlock()
		return strings.Fields(u.Solver)
	}
	return solverArgv()
}

var (
	usedSolvers   = map[string]bool{}
	usedSolversMu sync.Mutex
)

func solverName() string {
	a := solverArgv()
	extra := ""
	for k := range usedSolvers {
		f := strings.Fields(k)
		if out, err := exec.Command(f[0], "--version").Output(); err == nil {
			extra += "; unit solver: " + strings.SplitN(strings.TrimSpace(string(out)), "\n", 2)[0] + " (" + k + ")"
		}
	}
	defer func() { _ = extra }()
	return solverNameOf(a) + extra
}

func solverNameOf(a []string) string {
	out, err := exec.Command(a[0], "--version").Output()
	if err != nil {
		return a[0]
	}
	return strings.TrimSpace(string(out)) + " (" + a[0] + ")"
}

func NewSolver(argv []string, timeoutMs int) (*Solver, error) {
	s := &Solver{argv: argv, timeoutMs: timeoutMs}
	if err := s.start(); err != nil {
		return nil, err
	}
	return s, nil
}

func (s *Solver) start() error {
	cmd := exec.Command(s.argv[0], s.argv[1:]...)
	in, err := cmd.StdinPipe()
	if err != nil {
		return err
	}
	out, err := cmd.StdoutPipe()
	if err != nil {
		return err
	}
	cmd.Stderr = cmd.Stdout
	if err := cmd.Start(); err != nil {
		return err
	}
	s.cmd, s.in, s.out = cmd, in, bufio.NewReaderSize(out, 1<<20)
	s.stack = nil
	s.defLevel = map[int32]int{}
	s.defStack = [][]int32{nil}
	s.nTables = 0
	if p := os.Getenv("GOSYM_SMTLOG"); p != "" && s.logf == nil {
		s.logf, _ = os.Create(p)
	}
	if strings.Contains(s.argv[0], "z3") {
		s.send(fmt.Sprintf("(set-option :timeout %d)", s.timeoutMs))
	}
	s.send("(set-option :produce-models true)")
	if strings.Contains(s.argv[0], "cvc5") {
		s.send("(set-logic ALL)")
	}
	return nil
}

func (s *Solver) Close() {
	if s.cmd != nil {
		s.in.Close()
		s.cmd.Process.Kill()
		s.cmd.Wait()
		s.cmd = nil
	}
}

func (s *Solver) restart() {
	s.Close()
	if err := s.start(); err != nil {
		panic(err)
	}
}

func (s *Solver) send(line string) {
	if s.logf != nil {
		s.logf.WriteString(line + "\n")
	}
	io.WriteString(s.in, line+"\n")
}

func (s *Solver) readLine() string {
	l, err := s.out.ReadString('\n')
	if err != nil {
		return "(error \"solver died: " + err.Error() + "\")"
	}
	return strings.TrimSpace(l)
}

// define emits define-fun for every undefined node reachable from t and
// returns the symbol naming t.
func (s *Solver) define(t *Term) string {
	switch t.op {
	case OpConst:
		return constStr(t.w, t.c)
	}
	if _, ok := s.defLevel[t.id]; ok {
		return s.sym(t)
	}
	// iterative post-order
	type item struct {
		t *Term
		i int
	}
	st := []item{{t, 0}}
	for len(st) > 0 {
		top := &st[len(st)-1]
		if top.t.op == OpConst {
			st = st[:len(st)-1]
			continue
		}
		if _, ok := s.defLevel[top.t.id]; ok {
			st = st[:len(st)-1]
			continue
		}
		if top.i < len(top.t.args) {
			a := top.t.args[top.i]
			top.i++
			if a.op != OpConst {
				if _, ok := s.defLevel[a.id]; !ok {
					st = append(st, item{a, 0})
				}
			}
			continue
		}
		s.emitDef(top.t)
		st = st[:len(st)-1]
	}
	return s.sym(t)
}

func (s *Solver) sym(t *Term) string {
	if t.op == OpConst {
		return constStr(t.w, t.c)
	}
	if t.op == OpVar {
		return smtName(t.name)
	}
	return "t" + strconv.Itoa(int(t.id))
}

func (s *Solver) emitDef(t *Term) {
	lvl := len(s.defStack) - 1
	s.defLevel[t.id] = lvl
	s.defStack[lvl] = append(s.defStack[lvl], t.id)
	if t.op == OpVar {
		s.send(fmt.Sprintf("(declare-const %s %s)", smtName(t.name), t.sortStr()))
		return
	}
	var sb strings.Builder
	fmt.Fprintf(&sb, "(define-fun t%d () %s ", t.id, t.sortStr())
	switch t.op {
	case OpExtract:
		fmt.Fprintf(&sb, "((_ extract %d %d) %s)", t.c>>8, t.c&0xff, s.sym(t.args[0]))
	case OpZExt:
		fmt.Fprintf(&sb, "((_ zero_extend %d) %s)", t.w-t.args[0].w, s.sym(t.args[0]))
	case OpSExt:
		fmt.Fprintf(&sb, "((_ sign_extend %d) %s)", t.w-t.args[0].w, s.sym(t.args[0]))
	case OpTable:
		fmt.Fprintf(&sb, "(tbl%d %s)", t.c, s.sym(t.args[0]))
	default:
		sb.WriteString("(" + opNames[t.op])
		for _, a := range t.args {
			sb.WriteByte(' ')
			sb.WriteString(s.sym(a))
		}
		sb.WriteByte(')')
	}
	sb.WriteByte(')')
	s.send(sb.String())
}

// ensureTables declares all known tables at base level (they survive pops).
func (s *Solver) ensureTables() {
	nt := numTables()
	if s.nTables == nt {
		return
	}
	s.popTo(0)
	for id := s.nTables; id < nt; id++ {
		tb := getTable(id)
		// a constant table is a function of its index bits: balanced ite tree (bit-blasts well)
		nb := uint8(1)
		for (1 << nb) < len(tb.vals) {
			nb++
		}
		var build func(lo, hi int, bit int) string
		build = func(lo, hi int, bit int) string {
			if lo >= len(tb.vals) {
				return constStr(tb.w, 0)
			}
			if bit < 0 {
				return constStr(tb.w, tb.vals[lo])
			}
			mid := lo + (1 << uint(bit))
			return fmt.Sprintf("(ite (= ((_ extract %d %d) i) #b1) %s %s)", bit, bit, build(mid, hi, bit-1), build(lo, mid, bit-1))
		}
		// GF(2)-linear tables (CRC tables: T[0]=0, T[a^b]=T[a]^T[b], checked here on the concrete
		// contents) are the XOR of the entries of the set index bits: far easier to bit-blast
		linear := len(tb.vals) == 1<<nb && tb.vals[0] == 0
		for i := 0; linear && i < len(tb.vals); i++ {
			var x uint64
			for b := 0; b < int(nb); b++ {
				if i>>uint(b)&1 == 1 {
					x ^= tb.vals[1<<uint(b)]
				}
			}
			if x != tb.vals[i] {
				linear = false
			}
		}
		if linear {
			var sb strings.Builder
			sb.WriteString("(bvxor")
			for b := 0; b < int(nb); b++ {
				fmt.Fprintf(&sb, " (ite (= ((_ extract %d %d) i) #b1) %s %s)", b, b, constStr(tb.w, tb.vals[1<<uint(b)]), constStr(tb.w, 0))
			}
			sb.WriteString(")")
			s.send(fmt.Sprintf("(define-fun tbl%d ((i (_ BitVec %d))) (_ BitVec %d) %s)", id, tb.iw, tb.w, sb.String()))
			continue
		}
		s.send(fmt.Sprintf("(define-fun tbl%d ((i (_ BitVec %d))) (_ BitVec %d) %s)", id, tb.iw, tb.w, build(0, 1<<nb, int(nb)-1)))
	}
	s.nTables = nt
}

func (s *Solver) push(t *Term) {
	s.send("(push 1)")
	s.defStack = append(s.defStack, nil)
	name := s.define(t)
	s.send("(assert " + name + ")")
	s.stack = append(s.stack, t)
}

func (s *Solver) popTo(n int) {
	if n >= len(s.stack) {
		return
	}
	k := len(s.stack) - n
	s.send(fmt.Sprintf("(pop %d)", k))
	for i := 0; i < k; i++ {
		top := s.defStack[len(s.defStack)-1]
		for _, id := range top {
			delete(s.defLevel, id)
		}
		s.defStack = s.defStack[:len(s.defStack)-1]
	}
	s.stack = s.stack[:n]
}

// Sync makes the solver's assertion stack equal to pc.
func (s *Solver) Sync(pc []*Term) {
	n := 0
	for n < len(pc) && n < len(s.stack) && pc[n] == s.stack[n] {
		n++
	}
	s.popTo(n)
	for _, t := range pc[n:] {
		s.push(t)
	}
}

// Check decides sat(pc ∧ extra). vars lists the variables whose model
// values are wanted when sat.
// Check decides sat(pc ∧ extra); an unknown/timeout answer is retried once in a
// fresh solver process with three times the time limit before it is reported.
func (s *Solver) Check(pc []*Term, extra *Term, vars []*Term) (SatResult, Model) {
	r, m := s.check1(pc, extra, vars)
	if r != Unknown {
		return r, m
	}
	s.NUnknown--
	old := s.timeoutMs
	s.timeoutMs = old * 3
	s.restart()
	r, m = s.check1(pc, extra, vars)
	s.timeoutMs = old
	s.send(fmt.Sprintf("(set-option :timeout %d)", old))
	return r, m
}

func (s *Solver) check1(pc []*Term, extra *Term, vars []*Term) (SatResult, Model) {
	start := time.Now()
	defer func() { s.SolverSec += time.Since(start).Seconds() }()
	s.Queries++
	s.ensureTables()
	s.Sync(pc)
	s.send("(push 1)")
	s.defStack = append(s.defStack, nil)
	s.stack = append(s.stack, nil) // placeholder level
	defer func() {
		s.popTo(len(s.stack) - 1)
	}()
	if extra != nil {
		name := s.define(extra)
		s.send("(assert " + name + ")")
	}
	for _, v := range vars {
		s.define(v)
	}
	s.send("(check-sat)")
	t0 := time.Now()
	res := s.readResult()
	if s.logf != nil {
		fmt.Fprintf(s.logf, "; -> %s in %d ms\n", res, time.Since(t0).Milliseconds())
	}
	switch res {
	case Sat:
		s.NSat++
		m := Model{}
		if len(vars) > 0 {
			var sb strings.Builder
			sb.WriteString("(get-value (")
			for _, v := range vars {
				sb.WriteString(s.sym(v))
				sb.WriteByte(' ')
			}
			sb.WriteString("))")
			s.send(sb.String())
			txt := s.readSexp()
			if strings.Contains(txt, "(error") {
				s.Errors = append(s.Errors, txt)
				s.NUnknown++
				return Unknown, nil
			}
			parseValues(txt, vars, m)
		}
		return Sat, m
	case Unsat:
		s.NUnsat++
	default:
		s.NUnknown++
	}
	return res, nil
}

func (s *Solver) readResult() SatResult {
	for {
		l := s.readLine()
		switch {
		case l == "sat":
			return Sat
		case l == "unsat":
			return Unsat
		case l == "unknown" || l == "timeout":
			return Unknown
		case strings.Contains(l, "(error"):
			s.Errors = append(s.Errors, l)
			if strings.Contains(l, "solver died") {
				s.restart()
				return Unknown
			}
			// keep reading: an answer still follows, but it is not trusted
			r := s.readResult()
			_ = r
			return Unknown
		case l == "":
			continue
		default:
			// unexpected chatter
			s.Errors = append(s.Errors, "unexpected: "+l)
			return Unknown
		}
	}
}

// readSexp reads one balanced s-expression (possibly multi-line).
func (s *Solver) readSexp() string {
	var sb strings.Builder
	depth := 0
	started := false
	inBar := false
	for {
		l := s.readLine()
		sb.WriteString(l)
		sb.WriteByte(' ')
		for _, ch := range l {
			if ch == '|' {
				inBar = !inBar
			}
			if inBar {
				continue
			}
			if ch == '(' {
				depth++
				started = true
			} else if ch == ')' {
				depth--
			}
		}
		if started && depth <= 0 {
			return sb.String()
		}
		if strings.Contains(l, "solver died") {
			return sb.String()
		}
	}
}

// parseValues parses "((name val) (name val) ...)" in order of vars.
func parseValues(txt string, vars []*Term, m Model) {
	// tokenise
	toks := []string{}
	i := 0
	for i < len(txt) {
		c := txt[i]
		switch {
		case c == '(' || c == ')':
			toks = append(toks, string(c))
			i++
		case c == ' ' || c == '\n' || c == '\t' || c == '\r':
			i++
		case c == '|':
			j := strings.IndexByte(txt[i+1:], '|')
			toks = append(toks, txt[i:i+j+2])
			i += j + 2
		default:
			j := i
			for j < len(txt) && !strings.ContainsRune("() \n\t\r", rune(txt[j])) {
				j++
			}
			toks = append(toks, txt[i:j])
			i = j
		}
	}
	// expect ( ( name val ) ... )
	p := 1
	for _, v := range vars {
		if p+3 >= len(toks) || toks[p] != "(" {
			return
		}
		val := toks[p+2]
		var u uint64
		switch {
		case val == "true":
			u = 1
		case val == "false":
			u = 0
		case strings.HasPrefix(val, "#x"):
			u, _ = strconv.ParseUint(val[2:], 16, 64)
		case strings.HasPrefix(val, "#b"):
			u, _ = strconv.ParseUint(val[2:], 2, 64)
		case val == "(": // (_ bvN w)
			if p+4 < len(toks) && strings.HasPrefix(toks[p+4], "bv") {
				u, _ = strconv.ParseUint(toks[p+4][2:], 10, 64)
			}
			// skip to matching close
			d := 0
			q := p + 2
			for q < len(toks) {
				if toks[q] == "(" {
					d++
				} else if toks[q] == ")" {
					d--
					if d == 0 {
						break
					}
				}
				q++
			}
			if v.op == OpVar {
				m[v.name] = u
			}
			p = q + 2
			continue
		}
		if v.op == OpVar {
			m[v.name] = u
		}
		p += 4
	}
}
