package main

// Term DAG: hash-consed SMT terms over bit-vectors and booleans with
// constant folding, an evaluator (for models) and an SMT-LIB2 printer.

import (
	"fmt"
	"math/bits"
	"strings"
	"sync"
	"sync/atomic"
)

type Op uint8

const (
	OpConst Op = iota // BV constant (w>0) or Bool constant (w==0)
	OpVar
	OpAdd
	OpSub
	OpMul
	OpUDiv
	OpURem
	OpSDiv
	OpSRem
	OpAnd
	OpOr
	OpXor
	OpNot // bvnot
	OpNeg
	OpShl
	OpLShr
	OpAShr
	OpConcat
	OpExtract // c = hi<<8|lo
	OpZExt    // to width w
	OpSExt
	OpIte
	OpEq  // bool result
	OpUlt // bool
	OpUle
	OpSlt
	OpSle
	OpBAnd // bool and
	OpBOr
	OpBNot
	OpTable // select from constant table: c = table id, args[0]=index
)

var opNames = map[Op]string{
	OpAdd: "bvadd", OpSub: "bvsub", OpMul: "bvmul", OpUDiv: "bvudiv", OpURem: "bvurem",
	OpSDiv: "bvsdiv", OpSRem: "bvsrem", OpAnd: "bvand", OpOr: "bvor", OpXor: "bvxor",
	OpNot: "bvnot", OpNeg: "bvneg", OpShl: "bvshl", OpLShr: "bvlshr", OpAShr: "bvashr",
	OpConcat: "concat", OpIte: "ite", OpEq: "=", OpUlt: "bvult", OpUle: "bvule",
	OpSlt: "bvslt", OpSle: "bvsle", OpBAnd: "and", OpBOr: "or", OpBNot: "not",
}

// Term is an immutable hash-consed node. w==0 means Bool sort.
type Term struct {
	op   Op
	w    uint8 // bit width; 0 = Bool
	c    uint64
	name string
	args []*Term
	id   int32
}

type termKey struct {
	op      Op
	w       uint8
	c       uint64
	name    string
	a, b, d int32
	cv      [3]uint64
}

type table struct {
	id   int
	w    uint8 // element width
	iw   uint8 // index width
	vals []uint64
}

// TermStore interns terms. One store per worker (no sharing across workers).
const nStripes = 256

type termStripe struct {
	mu sync.Mutex
	m  map[termKey]*Term
	_  [40]byte
}

type TermStore struct {
	mu      sync.Mutex // tables
	stripes [nStripes]termStripe
	next    int32
	tables  []*table
	tblKey  map[string]int
}

func NewTermStore() *TermStore {
	s := &TermStore{tblKey: map[string]int{}}
	for i := range s.stripes {
		s.stripes[i].m = map[termKey]*Term{}
	}
	return s
}

var TS = NewTermStore()

func mask(w uint8) uint64 {
	if w >= 64 {
		return ^uint64(0)
	}
	return (uint64(1) << w) - 1
}

func (s *TermStore) mk(op Op, w uint8, c uint64, name string, args ...*Term) *Term {
	k := termKey{op: op, w: w, c: c, name: name, a: -1, b: -1, d: -1}
	// constant operands are not interned: they enter the key by value
	argKey := func(i int, t *Term) int32 {
		if t.op == OpConst {
			k.cv[i] = t.c
			return -2 - int32(t.w)
		}
		return t.id
	}
	if len(args) > 0 {
		k.a = argKey(0, args[0])
	}
	if len(args) > 1 {
		k.b = argKey(1, args[1])
	}
	if len(args) > 2 {
		k.d = argKey(2, args[2])
	}
	h := uint32(k.op)*31 + uint32(k.w)*17 + uint32(k.c)*2654435761 + uint32(k.c>>32)*40503 + uint32(k.a)*97 + uint32(k.b)*1009 + uint32(k.d)*7919 + uint32(k.cv[0])*31337 + uint32(k.cv[1])*65599 + uint32(k.cv[2])*131
	for i := 0; i < len(name); i++ {
		h = h*16777619 ^ uint32(name[i])
	}
	st := &s.stripes[h%nStripes]
	st.mu.Lock()
	defer st.mu.Unlock()
	if t, ok := st.m[k]; ok {
		return t
	}
	t := &Term{op: op, w: w, c: c, name: name, args: args, id: atomic.AddInt32(&s.next, 1)}
	st.m[k] = t
	return t
}

func (t *Term) IsConst() bool { return t.op == OpConst }
func (t *Term) IsBool() bool  { return t.w == 0 }

// BV constants are not interned (constant folding compares by value); small ones are cached.
var smallConsts [65][]*Term

func init() {
	for _, w := range []uint8{8, 16, 32, 64} {
		smallConsts[w] = make([]*Term, 512)
		for v := range smallConsts[w] {
			smallConsts[w][v] = &Term{op: OpConst, w: w, c: uint64(v), id: -1}
		}
	}
}

func BV(w uint8, v uint64) *Term {
	v &= mask(w)
	if w <= 64 && v < 512 {
		if c := smallConsts[w]; c != nil {
			return c[v]
		}
	}
	return &Term{op: OpConst, w: w, c: v, id: -1}
}
func Bool(b bool) *Term {
	if b {
		return TS.mk(OpConst, 0, 1, "")
	}
	return TS.mk(OpConst, 0, 0, "")
}

var (
	True  = Bool(true)
	False = Bool(false)
)

func Var(name string, w uint8) *Term { return TS.mk(OpVar, w, 0, name) }

func (t *Term) ConstBool() (bool, bool) {
	if t.op == OpConst && t.w == 0 {
		return t.c != 0, true
	}
	return false, false
}

func sext64(v uint64, w uint8) int64 {
	if w >= 64 {
		return int64(v)
	}
	sh := 64 - uint(w)
	return int64(v<<sh) >> sh
}

// evalOp computes a BV/bool op on constants.
func evalOp(op Op, w uint8, c uint64, a []uint64, aw []uint8) uint64 {
	m := mask(w)
	switch op {
	case OpAdd:
		return (a[0] + a[1]) & m
	case OpSub:
		return (a[0] - a[1]) & m
	case OpMul:
		return (a[0] * a[1]) & m
	case OpUDiv:
		if a[1] == 0 {
			return m
		}
		return a[0] / a[1]
	case OpURem:
		if a[1] == 0 {
			return a[0]
		}
		return a[0] % a[1]
	case OpSDiv:
		x, y := sext64(a[0], w), sext64(a[1], w)
		if y == 0 {
			if x >= 0 {
				return m
			}
			return 1
		}
		if y == -1 {
			return uint64(-x) & m
		}
		return uint64(x/y) & m
	case OpSRem:
		x, y := sext64(a[0], w), sext64(a[1], w)
		if y == 0 {
			return a[0]
		}
		if y == -1 {
			return 0
		}
		return uint64(x%y) & m
	case OpAnd:
		return a[0] & a[1]
	case OpOr:
		return a[0] | a[1]
	case OpXor:
		return a[0] ^ a[1]
	case OpNot:
		return ^a[0] & m
	case OpNeg:
		return (-a[0]) & m
	case OpShl:
		if a[1] >= uint64(w) {
			return 0
		}
		return (a[0] << a[1]) & m
	case OpLShr:
		if a[1] >= uint64(w) {
			return 0
		}
		return a[0] >> a[1]
	case OpAShr:
		x := sext64(a[0], w)
		sh := a[1]
		if sh >= uint64(w) {
			sh = uint64(w) - 1
		}
		return uint64(x>>sh) & m
	case OpConcat:
		return (a[0]<<aw[1] | a[1]) & m
	case OpExtract:
		lo := c & 0xff
		return (a[0] >> lo) & m
	case OpZExt:
		return a[0]
	case OpSExt:
		return uint64(sext64(a[0], aw[0])) & m
	case OpIte:
		if a[0] != 0 {
			return a[1]
		}
		return a[2]
	case OpEq:
		return b2u(a[0] == a[1])
	case OpUlt:
		return b2u(a[0] < a[1])
	case OpUle:
		return b2u(a[0] <= a[1])
	case OpSlt:
		return b2u(sext64(a[0], aw[0]) < sext64(a[1], aw[1]))
	case OpSle:
		return b2u(sext64(a[0], aw[0]) <= sext64(a[1], aw[1]))
	case OpBAnd:
		return a[0] & a[1]
	case OpBOr:
		return a[0] | a[1]
	case OpBNot:
		return a[0] ^ 1
	case OpTable:
		tb := getTable(int(c))
		if a[0] >= uint64(len(tb.vals)) {
			return 0
		}
		return tb.vals[a[0]]
	}
	panic(fmt.Sprintf("evalOp: bad op %d", op))
}

func b2u(b bool) uint64 {
	if b {
		return 1
	}
	return 0
}

func allConst(args []*Term) bool {
	for _, a := range args {
		if a.op != OpConst {
			return false
		}
	}
	return true
}

func mkOp(op Op, w uint8, c uint64, args ...*Term) *Term {
	if allConst(args) {
		av := make([]uint64, len(args))
		aw := make([]uint8, len(args))
		for i, a := range args {
			av[i] = a.c
			aw[i] = a.w
		}
		v := evalOp(op, w, c, av, aw)
		if w == 0 {
			return Bool(v != 0)
		}
		return BV(w, v)
	}
	return TS.mk(op, w, c, "", args...)
}

// ---- smart constructors ----

func chkW(a, b *Term) {
	if a.w != b.w {
		panic(fmt.Sprintf("width mismatch %d vs %d: %s | %s", a.w, b.w, a.Short(), b.Short()))
	}
}

func isZero(t *Term) bool { return t.op == OpConst && t.c == 0 }
func isOnes(t *Term) bool { return t.op == OpConst && t.c == mask(t.w) }

func Add(a, b *Term) *Term {
	chkW(a, b)
	if isZero(a) {
		return b
	}
	if isZero(b) {
		return a
	}
	if a.op != OpConst && b.op != OpConst {
		if r := orConcat(a, b); r != nil {
			return r
		}
		if r := orConcat(b, a); r != nil {
			return r
		}
	}
	if a.op == OpConst && b.op != OpConst {
		a, b = b, a
	}
	// (x + c1) + c2
	if b.op == OpConst && a.op == OpAdd && a.args[1].op == OpConst {
		return Add(a.args[0], BV(a.w, a.args[1].c+b.c))
	}
	if b.op == OpConst && a.op == OpSub && a.args[1].op == OpConst {
		return Add(a.args[0], BV(a.w, b.c-a.args[1].c))
	}
	return mkOp(OpAdd, a.w, 0, a, b)
}
func Sub(a, b *Term) *Term {
	chkW(a, b)
	if isZero(b) {
		return a
	}
	if a == b {
		return BV(a.w, 0)
	}
	if b.op == OpConst {
		return Add(a, BV(a.w, -b.c))
	}
	return mkOp(OpSub, a.w, 0, a, b)
}
func Mul(a, b *Term) *Term {
	chkW(a, b)
	if isZero(a) || isZero(b) {
		return BV(a.w, 0)
	}
	if a.op == OpConst && a.c == 1 {
		return b
	}
	if b.op == OpConst && b.c == 1 {
		return a
	}
	if a.op == OpConst && b.op != OpConst {
		a, b = b, a
	}
	if b.op == OpConst && bits.OnesCount64(b.c) == 1 {
		return Shl(a, BV(a.w, uint64(bits.TrailingZeros64(b.c))))
	}
	return mkOp(OpMul, a.w, 0, a, b)
}
func UDiv(a, b *Term) *Term {
	chkW(a, b)
	if b.op == OpConst && b.c == 1 {
		return a
	}
	if b.op == OpConst && b.c != 0 && bits.OnesCount64(b.c) == 1 {
		return LShr(a, BV(a.w, uint64(bits.TrailingZeros64(b.c))))
	}
	return mkOp(OpUDiv, a.w, 0, a, b)
}
func URem(a, b *Term) *Term {
	chkW(a, b)
	if b.op == OpConst && b.c != 0 && bits.OnesCount64(b.c) == 1 {
		return And(a, BV(a.w, b.c-1))
	}
	return mkOp(OpURem, a.w, 0, a, b)
}
func SDiv(a, b *Term) *Term {
	chkW(a, b)
	if b.op == OpConst && b.c == 1 {
		return a
	}
	return mkOp(OpSDiv, a.w, 0, a, b)
}
func SRem(a, b *Term) *Term { chkW(a, b); return mkOp(OpSRem, a.w, 0, a, b) }
func And(a, b *Term) *Term {
	chkW(a, b)
	if isZero(a) || isZero(b) {
		return BV(a.w, 0)
	}
	if isOnes(a) {
		return b
	}
	if isOnes(b) {
		return a
	}
	if a == b {
		return a
	}
	if a.op == OpConst && b.op != OpConst {
		a, b = b, a
	}
	// (zext x) & c where c covers all of x's bits
	if b.op == OpConst && a.op == OpZExt && b.c&mask(a.args[0].w) == mask(a.args[0].w) {
		return a
	}
	// low-mask of a narrower zext: and(zext(x), m) with m < 2^k
	if b.op == OpConst && b.c == mask(uint8(bits.Len64(b.c))) && b.c != 0 {
		k := uint8(bits.Len64(b.c))
		if k < a.w {
			return ZExt(Extract(a, k-1, 0), a.w)
		}
	}
	return mkOp(OpAnd, a.w, 0, a, b)
}
func Or(a, b *Term) *Term {
	chkW(a, b)
	if isZero(a) {
		return b
	}
	if isZero(b) {
		return a
	}
	if isOnes(a) || isOnes(b) {
		return BV(a.w, mask(a.w))
	}
	if a == b {
		return a
	}
	if r := orConcat(a, b); r != nil {
		return r
	}
	if r := orConcat(b, a); r != nil {
		return r
	}
	return mkOp(OpOr, a.w, 0, a, b)
}

// lowZeros recognises y = (H << k) i.e. H followed by k zero bits.
func lowZeros(y *Term) (*Term, uint8, bool) {
	if y.op == OpConcat && isZero(y.args[1]) {
		return y.args[0], y.args[1].w, true
	}
	if y.op == OpZExt {
		in := y.args[0]
		if in.op == OpConcat && isZero(in.args[1]) {
			k := in.args[1].w
			return ZExt(in.args[0], y.w-k), k, true
		}
	}
	return nil, 0, false
}

// orConcat: x occupies only the low k bits and y = H<<k  =>  x|y = x+y = concat(H, x[k-1:0]).
// This is how byte-wise integer (de)serialisation is recognised as identity.
func orConcat(x, y *Term) *Term {
	h, k, ok := lowZeros(y)
	if !ok {
		return nil
	}
	l := x
	if x.op == OpZExt {
		l = x.args[0]
	} else if x.op == OpConst {
		if x.c > mask(k) {
			return nil
		}
		return Concat(h, BV(k, x.c))
	}
	if l.w > k {
		return nil
	}
	return Concat(h, ZExt(l, k))
}
func Xor(a, b *Term) *Term {
	chkW(a, b)
	if isZero(a) {
		return b
	}
	if isZero(b) {
		return a
	}
	if a == b {
		return BV(a.w, 0)
	}
	return mkOp(OpXor, a.w, 0, a, b)
}
func Not(a *Term) *Term {
	if a.op == OpNot {
		return a.args[0]
	}
	return mkOp(OpNot, a.w, 0, a)
}
func Neg(a *Term) *Term { return mkOp(OpNeg, a.w, 0, a) }

func Shl(a, b *Term) *Term {
	chkW(a, b)
	if isZero(b) || isZero(a) {
		return a
	}
	if b.op == OpConst {
		if b.c >= uint64(a.w) {
			return BV(a.w, 0)
		}
		// shl by constant k = concat(extract(a, w-1-k, 0), 0_k)
		k := uint8(b.c)
		return Concat(Extract(a, a.w-1-k, 0), BV(k, 0))
	}
	return mkOp(OpShl, a.w, 0, a, b)
}
func LShr(a, b *Term) *Term {
	chkW(a, b)
	if isZero(b) || isZero(a) {
		return a
	}
	if b.op == OpConst {
		if b.c >= uint64(a.w) {
			return BV(a.w, 0)
		}
		k := uint8(b.c)
		return ZExt(Extract(a, a.w-1, k), a.w)
	}
	return mkOp(OpLShr, a.w, 0, a, b)
}
func AShr(a, b *Term) *Term {
	chkW(a, b)
	if isZero(b) {
		return a
	}
	if b.op == OpConst {
		k := b.c
		if k >= uint64(a.w) {
			k = uint64(a.w) - 1
		}
		return SExt(Extract(a, a.w-1, uint8(k)), a.w)
	}
	return mkOp(OpAShr, a.w, 0, a, b)
}

func Concat(hi, lo *Term) *Term {
	w := hi.w + lo.w
	if hi.op == OpConst && hi.c == 0 && lo.op != OpConst {
		return ZExt(lo, w)
	}
	if hi.op == OpZExt && !(lo.op == OpConst && lo.c == 0) {
		return ZExt(Concat(hi.args[0], lo), w)
	}
	// concat(extract(x,h,m+1), extract(x,m,l)) = extract(x,h,l)
	if hi.op == OpExtract && lo.op == OpExtract && hi.args[0] == lo.args[0] {
		hh, hl := uint8(hi.c>>8), uint8(hi.c&0xff)
		lh, ll := uint8(lo.c>>8), uint8(lo.c&0xff)
		if hl == lh+1 {
			return Extract(hi.args[0], hh, ll)
		}
	}
	return mkOp(OpConcat, w, 0, hi, lo)
}

func Extract(a *Term, hi, lo uint8) *Term {
	if lo == 0 && hi == a.w-1 {
		return a
	}
	w := hi - lo + 1
	switch a.op {
	case OpExtract:
		l0 := uint8(a.c & 0xff)
		return Extract(a.args[0], hi+l0, lo+l0)
	case OpZExt:
		iw := a.args[0].w
		if hi < iw {
			return Extract(a.args[0], hi, lo)
		}
		if lo >= iw {
			return BV(w, 0)
		}
		return ZExt(Extract(a.args[0], iw-1, lo), w)
	case OpSExt:
		iw := a.args[0].w
		if hi < iw {
			return Extract(a.args[0], hi, lo)
		}
	case OpConcat:
		lw := a.args[1].w
		if hi < lw {
			return Extract(a.args[1], hi, lo)
		}
		if lo >= lw {
			return Extract(a.args[0], hi-lw, lo-lw)
		}
		return Concat(Extract(a.args[0], hi-lw, 0), Extract(a.args[1], lw-1, lo))
	case OpAnd, OpOr, OpXor:
		// push extract through bitwise ops when one side is constant
		if a.args[1].op == OpConst || a.args[0].op == OpConst {
			x, y := Extract(a.args[0], hi, lo), Extract(a.args[1], hi, lo)
			switch a.op {
			case OpAnd:
				return And(x, y)
			case OpOr:
				return Or(x, y)
			default:
				return Xor(x, y)
			}
		}
	case OpIte:
		if a.args[1].op == OpConst && a.args[2].op == OpConst {
			return Ite(a.args[0], Extract(a.args[1], hi, lo), Extract(a.args[2], hi, lo))
		}
	}
	return mkOp(OpExtract, w, uint64(hi)<<8|uint64(lo), a)
}

func ZExt(a *Term, w uint8) *Term {
	if a.w == w {
		return a
	}
	if a.w > w {
		return Extract(a, w-1, 0)
	}
	if a.op == OpZExt {
		return ZExt(a.args[0], w)
	}
	return mkOp(OpZExt, w, 0, a)
}
func SExt(a *Term, w uint8) *Term {
	if a.w == w {
		return a
	}
	if a.w > w {
		return Extract(a, w-1, 0)
	}
	if a.op == OpZExt { // sign bit is 0
		return ZExt(a.args[0], w)
	}
	if a.op == OpSExt {
		return SExt(a.args[0], w)
	}
	return mkOp(OpSExt, w, 0, a)
}

func Ite(c, a, b *Term) *Term {
	if c.w != 0 {
		panic("ite cond not bool")
	}
	chkW(a, b)
	if v, ok := c.ConstBool(); ok {
		if v {
			return a
		}
		return b
	}
	if a == b {
		return a
	}
	if a.w == 0 {
		if av, ok := a.ConstBool(); ok {
			if av {
				return BOr(c, b)
			}
			return BAnd(BNot(c), b)
		}
		if bv, ok := b.ConstBool(); ok {
			if bv {
				return BOr(BNot(c), a)
			}
			return BAnd(c, a)
		}
	}
	if c.op == OpBNot {
		return Ite(c.args[0], b, a)
	}
	return mkOp(OpIte, a.w, 0, c, a, b)
}

func Eq(a, b *Term) *Term {
	chkW(a, b)
	if a == b {
		return True
	}
	if a.op == OpConst && b.op == OpConst {
		return Bool(a.c == b.c)
	}
	if a.op == OpConst && b.op != OpConst {
		a, b = b, a
	}
	if a.w == 0 {
		if bv, ok := b.ConstBool(); ok {
			if bv {
				return a
			}
			return BNot(a)
		}
	}
	if b.op == OpConst {
		switch a.op {
		case OpZExt:
			iw := a.args[0].w
			if b.c > mask(iw) {
				return False
			}
			return Eq(a.args[0], BV(iw, b.c))
		case OpIte:
			// eq(ite(c,k1,k2), k) with constants
			if a.args[1].op == OpConst && a.args[2].op == OpConst {
				e1, e2 := a.args[1].c == b.c, a.args[2].c == b.c
				switch {
				case e1 && e2:
					return True
				case e1:
					return a.args[0]
				case e2:
					return BNot(a.args[0])
				default:
					return False
				}
			}
		case OpAdd:
			if a.args[1].op == OpConst {
				return Eq(a.args[0], BV(a.w, b.c-a.args[1].c))
			}
		}
	}
	return mkOp(OpEq, 0, 0, a, b)
}
func Ne(a, b *Term) *Term { return BNot(Eq(a, b)) }
func Ult(a, b *Term) *Term {
	chkW(a, b)
	if a == b {
		return False
	}
	if isZero(b) {
		return False
	}
	if a.op == OpZExt && b.op == OpConst && b.c > mask(a.args[0].w) {
		return True
	}
	if a.op == OpZExt && b.op == OpZExt && a.args[0].w == b.args[0].w {
		return Ult(a.args[0], b.args[0])
	}
	return mkOp(OpUlt, 0, 0, a, b)
}
func Ule(a, b *Term) *Term {
	chkW(a, b)
	if a == b {
		return True
	}
	if isZero(a) {
		return True
	}
	return mkOp(OpUle, 0, 0, a, b)
}
func Slt(a, b *Term) *Term {
	chkW(a, b)
	if a == b {
		return False
	}
	// both zero-extended from narrower: unsigned compare on inner
	if a.op == OpZExt && b.op == OpZExt && a.args[0].w == b.args[0].w {
		return Ult(a.args[0], b.args[0])
	}
	if a.op == OpZExt && b.op == OpConst && sext64(b.c, b.w) >= 0 {
		if b.c > mask(a.args[0].w) {
			return True
		}
		return Ult(a.args[0], BV(a.args[0].w, b.c))
	}
	if b.op == OpZExt && a.op == OpConst && sext64(a.c, a.w) >= 0 {
		if a.c >= mask(b.args[0].w) {
			return False
		}
		return Ult(BV(b.args[0].w, a.c), b.args[0])
	}
	if a.op == OpZExt && b.op == OpConst && sext64(b.c, b.w) < 0 {
		return False
	}
	if b.op == OpZExt && a.op == OpConst && sext64(a.c, a.w) < 0 {
		return True
	}
	return mkOp(OpSlt, 0, 0, a, b)
}
func Sle(a, b *Term) *Term {
	chkW(a, b)
	if a == b {
		return True
	}
	return BNot(Slt(b, a))
}

func BAnd(a, b *Term) *Term {
	if v, ok := a.ConstBool(); ok {
		if v {
			return b
		}
		return False
	}
	if v, ok := b.ConstBool(); ok {
		if v {
			return a
		}
		return False
	}
	if a == b {
		return a
	}
	if (a.op == OpBNot && a.args[0] == b) || (b.op == OpBNot && b.args[0] == a) {
		return False
	}
	return mkOp(OpBAnd, 0, 0, a, b)
}
func BOr(a, b *Term) *Term {
	if v, ok := a.ConstBool(); ok {
		if v {
			return True
		}
		return b
	}
	if v, ok := b.ConstBool(); ok {
		if v {
			return True
		}
		return a
	}
	if a == b {
		return a
	}
	if (a.op == OpBNot && a.args[0] == b) || (b.op == OpBNot && b.args[0] == a) {
		return True
	}
	return mkOp(OpBOr, 0, 0, a, b)
}
func BNot(a *Term) *Term {
	if a.w != 0 {
		panic("BNot on non-bool")
	}
	if v, ok := a.ConstBool(); ok {
		return Bool(!v)
	}
	if a.op == OpBNot {
		return a.args[0]
	}
	return mkOp(OpBNot, 0, 0, a)
}

// BoolToBV converts Bool to a 1-bit or w-bit vector.
func BoolToBV(a *Term, w uint8) *Term { return Ite(a, BV(w, 1), BV(w, 0)) }

// Table registers (or reuses) a constant lookup table and returns a select term.
func TableID(elemW, idxW uint8, vals []uint64) int {
	var sb strings.Builder
	fmt.Fprintf(&sb, "%d/%d/", elemW, idxW)
	for _, v := range vals {
		fmt.Fprintf(&sb, "%x,", v)
	}
	k := sb.String()
	TS.mu.Lock()
	defer TS.mu.Unlock()
	if id, ok := TS.tblKey[k]; ok {
		return id
	}
	id := len(TS.tables)
	TS.tables = append(TS.tables, &table{id: id, w: elemW, iw: idxW, vals: append([]uint64(nil), vals...)})
	TS.tblKey[k] = id
	return id
}

func getTable(id int) *table {
	TS.mu.Lock()
	defer TS.mu.Unlock()
	return TS.tables[id]
}

func numTables() int {
	TS.mu.Lock()
	defer TS.mu.Unlock()
	return len(TS.tables)
}

func TableSel(id int, idx *Term) *Term {
	tb := getTable(id)
	if idx.w != tb.iw {
		panic("TableSel index width")
	}
	return mkOp(OpTable, tb.w, uint64(id), idx)
}

// ---- evaluation under a model ----

type Model map[string]uint64

func (m Model) Eval(t *Term) uint64 {
	memo := map[*Term]uint64{}
	return m.eval(t, memo)
}

func (m Model) eval(t *Term, memo map[*Term]uint64) uint64 {
	switch t.op {
	case OpConst:
		return t.c
	case OpVar:
		return m[t.name] & maskB(t.w)
	}
	if v, ok := memo[t]; ok {
		return v
	}
	// iterative for deep chains would be nicer; recursion depth is bounded by term depth
	var av [3]uint64
	var aw [3]uint8
	if t.op == OpIte {
		c := m.eval(t.args[0], memo)
		var v uint64
		if c != 0 {
			v = m.eval(t.args[1], memo)
		} else {
			v = m.eval(t.args[2], memo)
		}
		memo[t] = v
		return v
	}
	for i, a := range t.args {
		av[i] = m.eval(a, memo)
		aw[i] = a.w
	}
	v := evalOp(t.op, t.w, t.c, av[:len(t.args)], aw[:len(t.args)])
	memo[t] = v
	return v
}

func maskB(w uint8) uint64 {
	if w == 0 {
		return 1
	}
	return mask(w)
}

// ---- printing ----

func (t *Term) sortStr() string {
	if t.w == 0 {
		return "Bool"
	}
	return fmt.Sprintf("(_ BitVec %d)", t.w)
}

func constStr(w uint8, c uint64) string {
	if w == 0 {
		if c != 0 {
			return "true"
		}
		return "false"
	}
	if w%4 == 0 {
		return fmt.Sprintf("#x%0*x", int(w/4), c)
	}
	return fmt.Sprintf("#b%0*b", int(w), c)
}

// Short renders a small human-readable form (debugging / samples).
func (t *Term) Short() string {
	var sb strings.Builder
	t.short(&sb, 4)
	return sb.String()
}

func (t *Term) short(sb *strings.Builder, depth int) {
	switch t.op {
	case OpConst:
		if t.w == 0 {
			sb.WriteString(constStr(0, t.c))
		} else {
			fmt.Fprintf(sb, "%d:%d", t.c, t.w)
		}
		return
	case OpVar:
		sb.WriteString(t.name)
		return
	}
	if depth == 0 {
		sb.WriteString("…")
		return
	}
	name := opNames[t.op]
	switch t.op {
	case OpExtract:
		name = fmt.Sprintf("extract[%d:%d]", t.c>>8, t.c&0xff)
	case OpZExt:
		name = fmt.Sprintf("zext%d", t.w)
	case OpSExt:
		name = fmt.Sprintf("sext%d", t.w)
	case OpTable:
		name = fmt.Sprintf("tbl%d", t.c)
	}
	sb.WriteString("(" + name)
	for _, a := range t.args {
		sb.WriteByte(' ')
		a.short(sb, depth-1)
	}
	sb.WriteByte(')')
}

func smtName(name string) string {
	return "|" + strings.ReplaceAll(strings.ReplaceAll(name, "|", "_"), "\\", "_") + "|"
}
