package main

// Interpreter values.
//
//  *Term          bool / intN / uintN / uintptr (Bool or bit-vector of the Go width)
//  float64/float32/complex128  concrete only
//  string         concrete string
//  *SymStr        string with symbolic bytes, or opaque numeric string
//  Slice          slice header over a shared backing []Value (concrete len/cap)
//  Struct         []Value (value semantics; copied on load/store)
//  Array          []Value
//  *Value         pointer to a cell;  Ref for symbolic element pointers
//  Iface          interface value {T,V}; zero Iface is nil interface
//  *Map *Chan     reference objects
//  *ssa.Function *Closure *ssa.Builtin   functions
//  Tuple          multi-value

import (
	"fmt"
	"go/types"
	"strings"
	"sync"

	"golang.org/x/tools/go/ssa"
)

type Value interface{}

type Tuple []Value
type Struct []Value
type Array []Value

type Slice struct {
	arr      *[]Value // backing array (shared); nil for nil slice
	off      int
	len, cap int
	opq      *SymStr // []byte(itoa(t)): opaque decimal rendering; only pass-through, comparison and string() allowed
}

type Iface struct {
	T types.Type
	V Value
}

type Closure struct {
	Fn  *ssa.Function
	Env []Value
}

// SymStr is a string whose bytes are terms; if opq != nil it is an opaque
// decimal rendering of opq (only equality / parse / pass-through allowed).
type SymStr struct {
	b    []*Term
	opq  *Term
	sign bool // opaque: rendered as signed
}

// Ref is a pointer to element idx (symbolic) of a backing array of scalars.
type Ref struct {
	base []Value
	idx  *Term // 64-bit
}

// OpaqueFloat is float64(symbolic int): only pass-through is supported.
type OpaqueFloat struct {
	src  *Term
	bits bool // src is the IEEE bit pattern (else: an integer converted to float)
}

// RORef is a read-only pointer to "the element at a symbolic index" of an array whose elements
// in the chosen index range are all identical (e.g. a slot -> node table); stores are unsupported.
type RORef struct{ v Value }

// unsafe.Pointer wrapper
type UPtr struct{ p Value }

type Map struct {
	keyT    types.Type
	entries []*mapEntry
	idx     map[interface{}]int // concrete keys -> entries index
	nlive   int
	nsym    int // live entries whose key is not fully concrete
}

type ifaceKey struct {
	t string
	k interface{}
}

var typeStrCache sync.Map // types.Type -> string

func typeStr(t types.Type) string {
	if s, ok := typeStrCache.Load(t); ok {
		return s.(string)
	}
	s := t.String()
	typeStrCache.Store(t, s)
	return s
}

type mapEntry struct {
	k, v    Value
	deleted bool
}

type unsupported struct{ msg string }

func unsup(format string, args ...interface{}) {
	panic(unsupported{fmt.Sprintf(format, args...)})
}

// targetPanic is a Go-level panic in the interpreted program.
type targetPanic struct{ v Value }

// ---- helpers ----

func under(t types.Type) types.Type { return t.Underlying() }

func deref(t types.Type) types.Type {
	if p, ok := t.Underlying().(*types.Pointer); ok {
		return p.Elem()
	}
	panic("deref of non-pointer " + t.String())
}

func intWidth(t types.Type) (w uint8, signed bool, ok bool) {
	b, isb := t.Underlying().(*types.Basic)
	if !isb {
		return 0, false, false
	}
	switch b.Kind() {
	case types.Int8:
		return 8, true, true
	case types.Int16:
		return 16, true, true
	case types.Int32, types.UntypedRune:
		return 32, true, true
	case types.Int, types.Int64, types.UntypedInt:
		return 64, true, true
	case types.Uint8:
		return 8, false, true
	case types.Uint16:
		return 16, false, true
	case types.Uint32:
		return 32, false, true
	case types.Uint, types.Uint64, types.Uintptr:
		return 64, false, true
	}
	return 0, false, false
}

func isBoolT(t types.Type) bool {
	b, ok := t.Underlying().(*types.Basic)
	return ok && b.Info()&types.IsBoolean != 0
}
func isStringT(t types.Type) bool {
	b, ok := t.Underlying().(*types.Basic)
	return ok && b.Info()&types.IsString != 0
}
func isFloatT(t types.Type) bool {
	b, ok := t.Underlying().(*types.Basic)
	return ok && b.Info()&types.IsFloat != 0
}

func zero(t types.Type) Value {
	switch t := t.(type) {
	case *types.Basic:
		if t.Kind() == types.UntypedNil {
			panic("untyped nil has no zero value")
		}
		if w, _, ok := intWidth(t); ok {
			return BV(w, 0)
		}
		switch t.Kind() {
		case types.Bool, types.UntypedBool:
			return False
		case types.Float32:
			return float32(0)
		case types.Float64, types.UntypedFloat:
			return float64(0)
		case types.Complex64, types.Complex128:
			return complex128(0)
		case types.String, types.UntypedString:
			return ""
		case types.UnsafePointer:
			return UPtr{}
		}
		panic("zero: basic " + t.String())
	case *types.Pointer:
		return (*Value)(nil)
	case *types.Array:
		a := make(Array, t.Len())
		for i := range a {
			a[i] = zero(t.Elem())
		}
		return a
	case *types.Named, *types.Alias:
		return zero(t.Underlying())
	case *types.Interface:
		return Iface{}
	case *types.Slice:
		return Slice{}
	case *types.Struct:
		s := make(Struct, t.NumFields())
		for i := range s {
			s[i] = zero(t.Field(i).Type())
		}
		return s
	case *types.Tuple:
		if t.Len() == 1 {
			return zero(t.At(0).Type())
		}
		s := make(Tuple, t.Len())
		for i := range s {
			s[i] = zero(t.At(i).Type())
		}
		return s
	case *types.Chan:
		return (*Chan)(nil)
	case *types.Map:
		return (*Map)(nil)
	case *types.Signature:
		return (*ssa.Function)(nil)
	case *types.TypeParam:
		panic("zero of type param")
	}
	panic(fmt.Sprintf("zero: unexpected type %T %v", t, t))
}

// copyVal returns a copy of v with value semantics (structs/arrays deep-copied).
func copyVal(v Value) Value {
	switch v := v.(type) {
	case Struct:
		n := make(Struct, len(v))
		for i, f := range v {
			n[i] = copyVal(f)
		}
		return n
	case Array:
		n := make(Array, len(v))
		for i, f := range v {
			n[i] = copyVal(f)
		}
		return n
	case Tuple:
		panic("copy of tuple")
	}
	return v
}

// store writes v into *addr preserving identity of nested aggregate cells.
func store(addr *Value, v Value) {
	switch v := v.(type) {
	case Struct:
		if cur, ok := (*addr).(Struct); ok && len(cur) == len(v) {
			for i := range v {
				store(&cur[i], v[i])
			}
			return
		}
		*addr = copyVal(v)
	case Array:
		if cur, ok := (*addr).(Array); ok && len(cur) == len(v) {
			for i := range v {
				store(&cur[i], v[i])
			}
			return
		}
		*addr = copyVal(v)
	default:
		*addr = v
	}
}

func load(addr *Value) Value { return copyVal(*addr) }

// ---- slices ----

func (s Slice) at(i int) *Value {
	s.chkOpq()
	if s.off+i >= len(*s.arr) {
		unsup("access beyond the materialised prefix of a huge slice (len %d)", s.len)
	}
	return &(*s.arr)[s.off+i]
}
func (s Slice) isNil() bool { return s.arr == nil && s.opq == nil }
func (s Slice) chkOpq() {
	if s.opq != nil {
		unsup("inspection of opaque numeric byte slice []byte(itoa(%s))", s.opq.opq.Short())
	}
}
func (s Slice) elems() []Value {
	s.chkOpq()
	if s.arr == nil {
		return nil
	}
	if s.off+s.len > len(*s.arr) {
		unsup("whole-slice access to a huge slice (len %d)", s.len)
	}
	return (*s.arr)[s.off : s.off+s.len]
}

// hugeSlicePhys: slices longer than this are materialised only up to this many
// cells (enough for "allocate, then fail to fill it from a short input").
var hugeSlicePhys = 1 << 16

func newSlice(n, c int, elemT types.Type) Slice {
	phys := c
	if phys > hugeSlicePhys {
		phys = hugeSlicePhys
	}
	arr := make([]Value, phys)
	for i := range arr {
		arr[i] = zero(elemT)
	}
	return Slice{arr: &arr, off: 0, len: n, cap: c}
}

func sliceOf(vals []Value) Slice {
	arr := vals
	return Slice{arr: &arr, off: 0, len: len(vals), cap: len(vals)}
}

// ---- strings ----

func strBytes(v Value) []*Term {
	switch s := v.(type) {
	case string:
		b := make([]*Term, len(s))
		for i := 0; i < len(s); i++ {
			b[i] = BV(8, uint64(s[i]))
		}
		return b
	case *SymStr:
		if s.opq != nil {
			unsup("inspection of opaque numeric string itoa(%s)", s.opq.Short())
		}
		return s.b
	}
	panic(fmt.Sprintf("strBytes: not a string: %T", v))
}

func strLen(v Value) int {
	switch s := v.(type) {
	case string:
		return len(s)
	case *SymStr:
		if s.opq != nil {
			unsup("len of opaque numeric string")
		}
		return len(s.b)
	}
	panic(fmt.Sprintf("strLen: not a string: %T", v))
}

func mkStr(b []*Term) Value {
	for _, t := range b {
		if t.op != OpConst {
			return &SymStr{b: b}
		}
	}
	var sb strings.Builder
	for _, t := range b {
		sb.WriteByte(byte(t.c))
	}
	return sb.String()
}

// sliceAsStr views a []byte value as a string value (opaque-aware).
func sliceAsStr(s Slice) Value {
	if s.opq != nil {
		return s.opq
	}
	return mkStr(bytesOfSlice(s))
}

func bytesOfSlice(s Slice) []*Term {
	s.chkOpq()
	out := make([]*Term, s.len)
	for i, e := range s.elems() {
		out[i] = e.(*Term)
	}
	return out
}

func sliceOfBytes(b []*Term) Slice {
	vals := make([]Value, len(b))
	for i, t := range b {
		vals[i] = t
	}
	return sliceOf(vals)
}

func byteSliceFromString(s string) Slice {
	vals := make([]Value, len(s))
	for i := 0; i < len(s); i++ {
		vals[i] = BV(8, uint64(s[i]))
	}
	return sliceOf(vals)
}

// concreteString returns the Go string of v if fully concrete.
func concreteString(v Value) (string, bool) {
	s, ok := v.(string)
	return s, ok
}

// strEq returns the term a == b.
func strEq(a, b Value) *Term {
	if sa, ok := a.(string); ok {
		if sb, ok := b.(string); ok {
			return Bool(sa == sb)
		}
	}
	as, aok := a.(*SymStr)
	bs, bok := b.(*SymStr)
	if (aok && as.opq != nil) || (bok && bs.opq != nil) {
		if aok && bok && as.opq != nil && bs.opq != nil {
			if as.opq.w != bs.opq.w {
				unsup("compare opaque numeric strings of different widths")
			}
			return Eq(as.opq, bs.opq)
		}
		// opaque vs concrete string: parse the concrete one
		var o *SymStr
		var other Value
		if aok && as.opq != nil {
			o, other = as, b
		} else {
			o, other = bs, a
		}
		if cs, ok := other.(string); ok {
			if n, ok := parseDecimal(cs, o.sign, o.opq.w); ok {
				return Eq(o.opq, BV(o.opq.w, n))
			}
			return False
		}
		unsup("compare opaque numeric string with symbolic string")
	}
	ab, bb := strBytes(a), strBytes(b)
	if len(ab) != len(bb) {
		return False
	}
	r := True
	for i := range ab {
		r = BAnd(r, Eq(ab[i], bb[i]))
	}
	return r
}

// parseDecimal parses a canonical decimal rendering (as strconv would emit).
func parseDecimal(s string, signed bool, w uint8) (uint64, bool) {
	if s == "" {
		return 0, false
	}
	neg := false
	i := 0
	if s[0] == '-' {
		if !signed {
			return 0, false
		}
		neg = true
		i = 1
	}
	if i >= len(s) {
		return 0, false
	}
	if s[i] == '0' && len(s) > i+1 {
		return 0, false // not canonical
	}
	if s[i] == '0' && neg {
		return 0, false
	}
	var n uint64
	for ; i < len(s); i++ {
		if s[i] < '0' || s[i] > '9' {
			return 0, false
		}
		d := uint64(s[i] - '0')
		if n > (^uint64(0)-d)/10 {
			return 0, false
		}
		n = n*10 + d
	}
	if neg {
		if n > uint64(1)<<(w-1) {
			return 0, false
		}
		return (-n) & mask(w), true
	}
	if signed && n > mask(w)>>1 {
		return 0, false
	}
	if n > mask(w) {
		return 0, false
	}
	return n, true
}

// ---- equality ----

// equals returns the term x == y for comparable values.
func equals(x, y Value) *Term {
	switch x := x.(type) {
	case *Term:
		yt, ok := y.(*Term)
		if !ok {
			panic(fmt.Sprintf("equals: *Term vs %T", y))
		}
		return Eq(x, yt)
	case string, *SymStr:
		return strEq(x, y)
	case float64:
		return Bool(x == y.(float64))
	case float32:
		return Bool(x == y.(float32))
	case complex128:
		return Bool(x == y.(complex128))
	case *Value:
		switch y := y.(type) {
		case *Value:
			return Bool(x == y)
		case Ref:
			if x == nil {
				return False
			}
		}
		unsup("pointer comparison with symbolic reference")
	case Ref:
		if yp, ok := y.(*Value); ok && yp == nil {
			return False
		}
		unsup("comparison of symbolic references")
	case *Chan:
		return Bool(x == y.(*Chan))
	case *Map:
		return Bool(x == y.(*Map))
	case UPtr:
		return Bool(x == y.(UPtr))
	case Struct:
		ys := y.(Struct)
		r := True
		for i := range x {
			r = BAnd(r, equals(x[i], ys[i]))
		}
		return r
	case Array:
		ys := y.(Array)
		r := True
		for i := range x {
			r = BAnd(r, equals(x[i], ys[i]))
		}
		return r
	case Iface:
		yi := y.(Iface)
		if x.T == nil || yi.T == nil {
			return Bool(x.T == nil && yi.T == nil)
		}
		if !types.Identical(x.T, yi.T) {
			return False
		}
		return equals(x.V, yi.V)
	case *ssa.Function:
		// only comparison with nil is legal
		return Bool(isNilFunc(x) && isNilFunc(y))
	case *Closure:
		return Bool(isNilFunc(x) && isNilFunc(y))
	case *NativeObj:
		yo, ok := y.(*NativeObj)
		return Bool(ok && x == yo)
	case Slice:
		// only comparison with nil
		ys := y.(Slice)
		return Bool(x.isNil() && ys.isNil())
	}
	panic(fmt.Sprintf("equals: unhandled %T", x))
}

func isNilFunc(v Value) bool {
	switch f := v.(type) {
	case *ssa.Function:
		return f == nil
	case *Closure:
		return f == nil
	case *ssa.Builtin:
		return f == nil
	case *NativeFn:
		return f == nil
	}
	return false
}

// ---- maps ----

func newMap(keyT types.Type) *Map {
	return &Map{keyT: keyT, idx: map[interface{}]int{}}
}

// concreteKey returns a Go-comparable canonical form if v is fully concrete.
func concreteKey(v Value) (interface{}, bool) {
	switch v := v.(type) {
	case *Term:
		if v.op == OpConst {
			return [2]uint64{uint64(v.w), v.c}, true
		}
		return nil, false
	case string:
		return v, true
	case *SymStr:
		return nil, false
	case float64, float32:
		return v, true
	case *Value:
		return v, true
	case *Chan:
		return v, true
	case *Map:
		return v, true
	case *NativeObj:
		return v, true
	case Iface:
		if v.T == nil {
			return "<nil-iface>", true
		}
		k, ok := concreteKey(v.V)
		if !ok {
			return nil, false
		}
		return ifaceKey{typeStr(v.T), k}, true
	case Struct:
		var sb strings.Builder
		sb.WriteString("S{")
		for _, f := range v {
			k, ok := concreteKey(f)
			if !ok {
				return nil, false
			}
			fmt.Fprintf(&sb, "%T|%v;", k, k)
		}
		sb.WriteString("}")
		return sb.String(), true
	case Array:
		var sb strings.Builder
		sb.WriteString("A{")
		for _, f := range v {
			k, ok := concreteKey(f)
			if !ok {
				return nil, false
			}
			fmt.Fprintf(&sb, "%T|%v;", k, k)
		}
		sb.WriteString("}")
		return sb.String(), true
	}
	return nil, false
}

// fmtValue renders a value for samples / debugging.
func fmtValue(v Value) string {
	switch v := v.(type) {
	case nil:
		return "<nil>"
	case *Term:
		return v.Short()
	case string:
		return fmt.Sprintf("%q", v)
	case *SymStr:
		if v.opq != nil {
			return "itoa(" + v.opq.Short() + ")"
		}
		var sb strings.Builder
		sb.WriteString("str[")
		for i, b := range v.b {
			if i > 0 {
				sb.WriteByte(' ')
			}
			sb.WriteString(b.Short())
		}
		sb.WriteString("]")
		return sb.String()
	case Slice:
		var sb strings.Builder
		sb.WriteString("[")
		for i, e := range v.elems() {
			if i > 0 {
				sb.WriteByte(' ')
			}
			if i > 16 {
				sb.WriteString("…")
				break
			}
			sb.WriteString(fmtValue(e))
		}
		sb.WriteString("]")
		return sb.String()
	case Struct:
		var sb strings.Builder
		sb.WriteString("{")
		for i, e := range v {
			if i > 0 {
				sb.WriteByte(' ')
			}
			sb.WriteString(fmtValue(e))
		}
		sb.WriteString("}")
		return sb.String()
	case Iface:
		if v.T == nil {
			return "nil"
		}
		return "(" + v.T.String() + ")" + fmtValue(v.V)
	case *Value:
		if v == nil {
			return "nilptr"
		}
		return "&" + fmtValue(*v)
	}
	return fmt.Sprintf("%T", v)
}
