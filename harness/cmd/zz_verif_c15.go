package cmd

// C15, the leader's side of the lease: the real (*SyncerCmd).clusterTicker renews on every tick of
// its ticker and must stop leading before the lease it last obtained can have expired at the store.
// Time is a variable of the harness: ticks arrive on the ticker's grid (a tick that became due while
// the previous one was being handled is delivered at once), every election call takes an arbitrary
// time up to the renew interval (the context deadline clusterRenew sets) and succeeds, is refused or
// fails with a transport error.

import (
	"context"
	"errors"
	"time"

	"github.com/mgtv-tech/redis-GunYu/config"
	"github.com/mgtv-tech/redis-GunYu/pkg/cluster"
	"github.com/mgtv-tech/redis-GunYu/pkg/log"
	usync "github.com/mgtv-tech/redis-GunYu/pkg/sync"
)

var (
	verifTickers   []chan time.Time
	verifTickerSeq int
)

func verifNewTicker(d time.Duration) *time.Ticker {
	if verifTickerSeq < len(verifTickers) {
		t := &time.Ticker{C: verifTickers[verifTickerSeq]}
		verifTickerSeq++
		return t
	}
	return time.NewTicker(time.Hour)
}

var verifErrIO = errors.New("fake: i/o timeout")

type verifElection struct {
	renew func() error
}

func (e *verifElection) Renew(context.Context) error { return e.renew() }
func (e *verifElection) Leader(context.Context) (*cluster.RoleInfo, error) {
	return nil, cluster.ErrNoLeader
}
func (e *verifElection) Campaign(context.Context) (cluster.ClusterRole, error) {
	return cluster.RoleFollower, nil
}
func (e *verifElection) Resign(context.Context) error { return nil }

// verifC15Settle: natively, give the ticker goroutine the time to finish what it is doing (under the
// engine a blocking operation of the harness lets every other goroutine run until it blocks)
func verifC15Settle() {
	if !verifSymbolic() {
		time.Sleep(3 * time.Millisecond)
	}
}

func VerifC15Ticker() {
	// what ClusterConfig.fix guarantees (VerifC15ConfigFix): 3s <= timeout <= 600s, 1s <= renew <= timeout/3
	// (timeout = 3*renew + slack, written with additions only)
	interval := verifI64("renewInterval")
	slack := verifI64("timeoutSlack")
	verifAssume(verifAnd(interval >= 1000000000, interval <= 200000000000))
	verifAssume(verifAnd(slack >= 0, slack <= 600000000000))
	timeout := interval + interval + interval + slack
	verifAssume(timeout <= 600000000000)
	config.GetSyncerConfig().Cluster = &config.ClusterConfig{GroupName: "g", LeaseTimeout: time.Duration(timeout), LeaseRenewInterval: time.Duration(interval)}

	now := int64(1700000000000000000)
	verifClockNs = now
	// the store granted (or renewed) the lease at lastOK: it expires there at lastOK + timeout
	lastOK := now
	calls := 0
	failed := false // the renewal of the current tick failed (every attempt)
	el := &verifElection{}
	el.renew = func() error {
		calls++
		// the call takes d1 until the store handles it and d2 until the reply is back; the context
		// deadline set by clusterRenew bounds the whole call by the renew interval
		// (the store handles it at once and the reply takes d: the earliest the lease can start)
		d1, d2 := int64(0), verifI64("d")
		verifAssume(verifAnd(d2 >= 0, d2 <= interval))
		out := verifChoose("renew", 3)
		var err error
		switch out {
		case 0:
			if now+d1 < lastOK+timeout {
				lastOK = now + d1
			} else {
				// the lease has run out at the store: somebody else may hold it by now
				err = cluster.ErrNotLeader
			}
		case 1:
			err = cluster.ErrNotLeader
		default:
			err = verifErrIO // call or reply lost; the worst case for the caller: the store did not see it
		}
		now += d1 + d2
		verifClockNs = now
		failed = err != nil
		return err
	}
	tick := make(chan time.Time)
	verifTickers = []chan time.Time{tick}
	verifTickerSeq = 0
	wait := usync.NewWaitCloser(nil)
	stopped := make(chan struct{})
	sc := &SyncerCmd{logger: log.WithLogger("[verif] ")}
	go func() {
		sc.clusterTicker(wait, cluster.RoleLeader, el, "in", "key")
		close(stopped)
	}()
	n := verifParam("NTICKS", 4)
	delivered := now // when the previous tick was delivered (the ticker starts now)
	ended := false
	for i := 0; i < n && !ended; i++ {
		// the next tick: on the grid, or at once when it became due while the previous one was handled
		due := delivered + interval
		if now < due {
			now = due
		}
		verifClockNs = now
		// up to this instant the instance has been running as leader
		verifAssert(now-lastOK <= timeout, "C15.ticker.leads-beyond-lease")
		delivered = now
		failed = false
		before := calls
		select {
		case tick <- time.Time{}:
		case <-stopped:
			ended = true
		}
		if ended {
			break
		}
		verifC15Settle()
		// the tick has been handled (the goroutine is back at its select, or gone)
		verifCover(calls > before, "c15.ticker.renewed")
		select {
		case <-stopped:
			ended = true
		default:
		}
		if !ended && wait.IsClosed() {
			// told to stop: the loop leaves at its next select
			<-stopped
			ended = true
		}
		if failed {
			verifAssert(ended, "C15.ticker.failed-renewal-not-reported-as-loss")
			verifCover(true, "c15.ticker.loss-reported")
		}
		if ended {
			// the instant the instance stops leading
			verifAssert(now-lastOK <= timeout, "C15.ticker.leads-beyond-lease")
		}
	}
	if !ended {
		wait.Close(nil)
		<-stopped
	}
	verifReach("c15.ticker.done")
}
