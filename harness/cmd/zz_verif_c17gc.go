package cmd

// C17 (which ids count as live): the real SyncerCmd.gcStaleCheckpoint - collection of the sources'
// replication ids, then checkpoint.DelStaleCheckpoint / DelCheckpointHash on the target - with client.NewRedis
// in cmd/syncer.go redirected to harness connections (source rewrite, both modes).

import (
	"context"
	"errors"
	"strconv"
	"time"

	"github.com/mgtv-tech/redis-GunYu/config"
	"github.com/mgtv-tech/redis-GunYu/pkg/log"
	"github.com/mgtv-tech/redis-GunYu/pkg/redis/client"
)

var verifGcConns map[string]*verifFake // address -> connection; nil entry = the node cannot be reached

func verifNewRedis(cfg config.RedisConfig) (client.Redis, error) {
	if len(cfg.Addresses) == 0 {
		return nil, errors.New("verif: no address")
	}
	f, ok := verifGcConns[cfg.Addresses[0]]
	if !ok || f == nil {
		return nil, errors.New("verif: dial " + cfg.Addresses[0] + ": connection refused")
	}
	f.curDb = 0
	return f, nil
}

// VerifC17GcLiveIds: two sources share one target. Source 1 is reachable; source 2 is reachable or not. The
// target holds one checkpoint per source, both older than the staleness window, and a third one of an id no
// source reports. After one collection round: the only copy of a reachable source's id is still there (it is
// the newest copy of a reported id); the checkpoint of a source that could not be asked is still there (nobody
// said its id is gone); the orphan may go.
func VerifC17GcLiveIds() {
	now := int64(1700000000) * int64(time.Second)
	verifClockNs = now
	defer func() { verifClockNs = 0 }()
	reach2 := verifChoose("source2Reachable", 2) == 1
	s1, s2, tgt := verifNewFake(), verifNewFake(), verifNewFake()
	s1.infoReplication = "# Replication\r\nrole:master\r\nmaster_replid:idA\r\nmaster_replid2:0000000000000000000000000000000000000000\r\n"
	s2.infoReplication = "# Replication\r\nrole:master\r\nmaster_replid:idB\r\nmaster_replid2:0000000000000000000000000000000000000000\r\n"
	verifGcConns = map[string]*verifFake{"s1:6379": s1, "t:6379": tgt}
	if reach2 {
		verifGcConns["s2:6379"] = s2
	}
	stale := strconv.FormatInt(now-int64(13*time.Hour), 10)
	seed := func(name, id string, off string) {
		tgt.request("hset", []interface{}{name, id + "_runid", id, id + "_version", "v", id + "_offset", off, id + "_mtime", stale})
		tgt.request("hset", []interface{}{config.CheckpointKeyHashKey, id, name})
	}
	tgt.request("set", []interface{}{"data", "x"})
	seed("cp-a", "idA", "500")
	seed("cp-b", "idB", "700")
	seed("cp-c", "idC", "900")

	sc := config.GetSyncerConfig()
	in := &config.RedisConfig{Addresses: []string{"s1:6379", "s2:6379"}, Type: config.RedisTypeStandalone, ClusterOptions: &config.RedisClusterOptions{}}
	in.SetClusterShards([]*config.RedisClusterShard{{Master: config.RedisNode{Address: "s1:6379"}}, {Master: config.RedisNode{Address: "s2:6379"}}})
	out := &config.RedisConfig{Addresses: []string{"t:6379"}, Type: config.RedisTypeStandalone, ClusterOptions: &config.RedisClusterOptions{}}
	out.SetClusterShards([]*config.RedisClusterShard{{Master: config.RedisNode{Address: "t:6379"}}})
	sc.Input = &config.InputConfig{Redis: in}
	sc.Output = &config.OutputConfig{Redis: out}
	sc.Channel = &config.ChannelConfig{StaleCheckpointDuration: 12 * time.Hour}

	cmd := &SyncerCmd{logger: log.WithLogger("[verif] ")}
	cmd.gcStaleCheckpoint(context.Background())

	has := func(name, id string) bool {
		h := tgt.st.hash(0, name, false)
		if h == nil {
			return false
		}
		_, ok := h.get(id + "_offset")
		idx := tgt.st.hash(0, config.CheckpointKeyHashKey, false)
		_, ok2 := idx.get(id)
		return ok && idx != nil && ok2
	}
	verifAssert(has("cp-a", "idA"), "C17.gc.live-ids.removed-newest-of-reported-id")
	if reach2 {
		verifAssert(has("cp-b", "idB"), "C17.gc.live-ids.removed-newest-of-reported-id")
		// (whether the orphan cp-c goes in this round is not part of the property)
		verifCover(true, "gc.live-ids.all-reachable")
	} else {
		verifAssert(has("cp-b", "idB"), "C17.gc.live-ids.removed-position-of-unreachable-source")
		verifCover(true, "gc.live-ids.one-unreachable")
	}
	verifReach("gc.live-ids.done")
}
