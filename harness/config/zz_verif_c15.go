package config

import "time"

// VerifC15ConfigFix: for every configured pair the normalised lease settings
// satisfy 3s <= timeout <= 600s and 1s <= renew <= timeout/3, so a holder
// always attempts a renewal (and steps down on failure) well inside its lease.
func VerifC15ConfigFix() {
	cc := &ClusterConfig{GroupName: "g"}
	cc.LeaseTimeout = time.Duration(verifI64("timeout"))
	cc.LeaseRenewInterval = time.Duration(verifI64("renew"))
	verifAssume(verifAnd(cc.LeaseTimeout >= 0, cc.LeaseTimeout < 1<<50))
	verifAssume(verifAnd(cc.LeaseRenewInterval >= 0, cc.LeaseRenewInterval < 1<<50))
	err := cc.fix()
	verifAssert(err == nil, "C15.config.error")
	verifAssert(verifAnd(cc.LeaseTimeout >= 3*time.Second, cc.LeaseTimeout <= 600*time.Second), "C15.config.timeout-range")
	verifAssert(cc.LeaseRenewInterval >= time.Second, "C15.config.renew-min")
	verifAssert(cc.LeaseRenewInterval <= cc.LeaseTimeout/3, "C15.config.renew-le-third")
	verifObserve("timeout", int64(cc.LeaseTimeout))
	verifObserve("renew", int64(cc.LeaseRenewInterval))
}
