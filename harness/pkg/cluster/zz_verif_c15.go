package cluster

// C15: one inductive step of the Redis-based leader lease. The store is a
// lease key with expiry at the store's clock; the two election scripts are
// evaluated by a small interpreter for the Lua subset they use, fed with the
// script text the real Campaign/Resign pass to Do("eval", ...) at run time.

import (
	"bufio"
	"context"
	"errors"
	"strconv"
	"strings"

	"github.com/mgtv-tech/redis-GunYu/config"
	"github.com/mgtv-tech/redis-GunYu/pkg/redis/client"
	"github.com/mgtv-tech/redis-GunYu/pkg/redis/client/common"
)

type verifLeaseStore struct {
	now      int64 // store clock (seconds)
	exists   bool
	value    string
	expireAt int64
	loseCall bool // the request never reaches the store
	loseRepl bool // the request is executed but its reply is lost
	evals    int
	badLua   string
	// between two store commands of one election call the rest of the world may move: time passes
	// and another instance campaigns (a script runs atomically, a sequence of commands does not)
	cmdInCall  int
	envStep    func()
	envStepped bool
}

var verifErrLost = errors.New("fake: i/o timeout")

func (s *verifLeaseStore) live() bool { return s.exists && s.now < s.expireAt }

type verifLuaVal struct {
	isFalse bool
	s       string
	n       int64
	isNum   bool
}

func (s *verifLeaseStore) luaCall(args []verifLuaVal) verifLuaVal {
	cmd := strings.ToUpper(args[0].s)
	switch cmd {
	case "GET":
		if s.live() {
			return verifLuaVal{s: s.value}
		}
		return verifLuaVal{isFalse: true}
	case "SET":
		s.exists, s.value = true, args[2].s
		s.expireAt = 1 << 62
		for i := 3; i+1 < len(args); i++ {
			if strings.ToUpper(args[i].s) == "EX" {
				s.expireAt = s.now + args[i+1].n
			}
		}
	case "EXPIRE":
		if s.live() {
			s.expireAt = s.now + args[2].n
		}
	case "DEL":
		s.exists = false
	default:
		s.badLua = "redis.call " + cmd
	}
	return verifLuaVal{}
}

// verifLua evaluates the script subset: local x = KEYS[i]|ARGV[i]|redis.call(...),
// if a == b|false then ... else ... end, redis.call(...), return <int>.
func (s *verifLeaseStore) verifLua(script string, keys, argv []verifLuaVal) (int64, bool) {
	var lines []string
	for _, l := range strings.Split(script, "\n") {
		l = strings.TrimSpace(l)
		if l != "" {
			lines = append(lines, l)
		}
	}
	env := map[string]verifLuaVal{}
	operand := func(t string) verifLuaVal {
		t = strings.TrimSpace(t)
		switch {
		case t == "false":
			return verifLuaVal{isFalse: true}
		case strings.HasPrefix(t, "'"):
			return verifLuaVal{s: strings.Trim(t, "'")}
		case strings.HasPrefix(t, "KEYS["):
			i, _ := strconv.Atoi(t[5 : len(t)-1])
			return keys[i-1]
		case strings.HasPrefix(t, "ARGV["):
			i, _ := strconv.Atoi(t[5 : len(t)-1])
			return argv[i-1]
		}
		if v, ok := env[t]; ok {
			return v
		}
		s.badLua = "operand " + t
		return verifLuaVal{}
	}
	call := func(t string) verifLuaVal {
		inner := t[strings.Index(t, "(")+1 : strings.LastIndex(t, ")")]
		var as []verifLuaVal
		for _, a := range strings.Split(inner, ",") {
			as = append(as, operand(a))
		}
		return s.luaCall(as)
	}
	pc := 0
	var exec func(run bool) (int64, bool, bool) // value, returned, hitElseOrEnd
	exec = func(run bool) (int64, bool, bool) {
		for pc < len(lines) {
			l := lines[pc]
			switch {
			case l == "else" || l == "end":
				return 0, false, true
			case strings.HasPrefix(l, "if "):
				cond := strings.TrimSuffix(strings.TrimPrefix(l, "if "), " then")
				parts := strings.Split(cond, "==")
				take := false
				if run {
					a, b := operand(parts[0]), operand(parts[1])
					if a.isFalse || b.isFalse {
						take = a.isFalse == b.isFalse
					} else {
						take = a.s == b.s
					}
				}
				pc++
				v, ret, _ := exec(run && take)
				if ret {
					return v, true, false
				}
				if lines[pc] == "else" {
					pc++
					v, ret, _ = exec(run && !take)
					if ret {
						return v, true, false
					}
				}
				pc++ // end
			case strings.HasPrefix(l, "local "):
				if run {
					eq := strings.Index(l, "=")
					name := strings.TrimSpace(l[6:eq])
					rhs := strings.TrimSpace(l[eq+1:])
					if strings.HasPrefix(rhs, "redis.call") {
						env[name] = call(rhs)
					} else {
						env[name] = operand(rhs)
					}
				}
				pc++
			case strings.HasPrefix(l, "redis.call"):
				if run {
					call(l)
				}
				pc++
			case strings.HasPrefix(l, "return "):
				if run {
					n, err := strconv.ParseInt(strings.TrimSpace(l[7:]), 10, 64)
					if err != nil {
						s.badLua = l
					}
					return n, true, false
				}
				pc++
			default:
				s.badLua = l
				pc++
			}
		}
		return 0, false, false
	}
	v, ret, _ := exec(true)
	return v, ret
}

func verifToLua(a interface{}) verifLuaVal {
	switch v := a.(type) {
	case string:
		return verifLuaVal{s: v}
	case []byte:
		return verifLuaVal{s: string(v)}
	case int:
		return verifLuaVal{n: int64(v), isNum: true}
	case int64:
		return verifLuaVal{n: v, isNum: true}
	}
	return verifLuaVal{}
}

func (s *verifLeaseStore) Do(cmd string, args ...interface{}) (interface{}, error) {
	s.cmdInCall++
	if s.cmdInCall > 1 && s.envStep != nil {
		s.envStep()
	}
	if s.loseCall {
		return nil, verifErrLost
	}
	var rep interface{}
	switch strings.ToLower(cmd) {
	case "eval":
		s.evals++
		nk, _ := strconv.Atoi(verifToLua(args[1]).s)
		var keys, argv []verifLuaVal
		for i, a := range args[2:] {
			if i < nk {
				keys = append(keys, verifToLua(a))
			} else {
				argv = append(argv, verifToLua(a))
			}
		}
		v, _ := s.verifLua(verifToLua(args[0]).s, keys, argv)
		rep = v
	case "get":
		if s.live() {
			rep = []byte(s.value)
		}
	case "del", "set", "expire", "pexpire", "ttl", "exists":
		// plain commands, with the same store semantics as inside a script
		la := []verifLuaVal{{s: cmd}}
		for _, a := range args {
			la = append(la, verifToLua(a))
		}
		up := strings.ToUpper(cmd)
		switch up {
		case "DEL":
			var n int64
			if s.live() {
				n = 1
			}
			s.luaCall(la)
			rep = n
		case "SET":
			nx := false
			for _, a := range la[3:] {
				if strings.ToUpper(a.s) == "NX" {
					nx = true
				}
			}
			if nx && s.live() {
				rep = nil
			} else {
				s.luaCall(la)
				rep = "OK"
			}
		case "EXPIRE":
			var n int64
			if s.live() {
				n = 1
			}
			s.luaCall(la)
			rep = n
		default:
			s.badLua = "command " + cmd
		}
	default:
		s.badLua = "command " + cmd
	}
	if s.loseRepl {
		return nil, verifErrLost
	}
	return rep, nil
}

func (s *verifLeaseStore) Close() error                                  { return nil }
func (s *verifLeaseStore) Send(string, ...interface{}) error             { return nil }
func (s *verifLeaseStore) SendAndFlush(string, ...interface{}) error     { return nil }
func (s *verifLeaseStore) Receive() (interface{}, error)                 { return nil, nil }
func (s *verifLeaseStore) ReceiveString() (string, error)                { return "", nil }
func (s *verifLeaseStore) ReceiveBool() (bool, error)                    { return false, nil }
func (s *verifLeaseStore) BufioReader() *bufio.Reader                    { return nil }
func (s *verifLeaseStore) BufioWriter() *bufio.Writer                    { return nil }
func (s *verifLeaseStore) Flush() error                                  { return nil }
func (s *verifLeaseStore) RedisType() config.RedisType                   { return config.RedisTypeStandalone }
func (s *verifLeaseStore) Addresses() []string                           { return nil }
func (s *verifLeaseStore) NewBatcher(bool) common.CmdBatcher             { return nil }
func (s *verifLeaseStore) NewTxnBatcher() common.CmdBatcher              { return nil }
func (s *verifLeaseStore) IterateNodes(func(string, interface{}, error), string, ...interface{}) {}

// VerifC15Step: from an arbitrary lease state (absent / held by the actor /
// held by someone else, any remaining life time) one call by instance A at any
// store time: a campaign or renewal succeeds exactly for the holder or when no
// unexpired lease exists and then the lease is A's for exactly ttl from now; a
// refusal changes nothing and a refused renewal is ErrNotLeader; resigning
// removes only A's own lease; a lost call changes nothing, a lost reply never
// makes A believe it is leader.
// verifNewElection: the election object as the tool builds it (redisCluster.NewElection)
func verifNewElection(cli client.Redis, ttl int, id string) Election {
	rc := &redisCluster{redisCli: cli, ttl: ttl, ctx: context.Background(), cancel: func() {}}
	return rc.NewElection(context.Background(), "lease", id)
}

func VerifC15Step() {
	idA := verifStr("idA", 2)
	idO := verifStr("idOther", 2)
	verifAssume(idA != idO)
	st := &verifLeaseStore{}
	st.now = verifI64("now")
	verifAssume(verifAnd(st.now >= 0, st.now < 1<<40))
	holder := verifChoose("holder", 3) // 0 = nobody, 1 = A, 2 = other
	if holder != 0 {
		st.exists = true
		st.value = idA
		if holder == 2 {
			st.value = idO
		}
		st.expireAt = verifI64("expireAt")
		verifAssume(verifAnd(st.expireAt >= 0, st.expireAt < 1<<41))
	}
	live := st.live()
	heldByOther := verifAnd(live, holder == 2)
	ttl := verifInt("ttl")
	verifAssume(verifAnd(ttl >= 1, ttl <= 600))
	switch verifChoose("fault", 3) {
	case 1:
		st.loseCall = true
	case 2:
		st.loseRepl = true
	}
	preExists, preValue, preExpire := st.exists, st.value, st.expireAt
	e := verifNewElection(st, ttl, idA)
	op := verifChoose("op", 3)
	ctx := context.Background()
	st.envStep = func() {
		if verifChoose("env", 2) == 1 {
			dt := verifI64("envdt")
			verifAssume(verifAnd(dt >= 0, dt < 1<<20))
			st.now += dt
			st.envStepped = true
			if !st.live() {
				// another instance's campaign finds no unexpired lease and takes it
				st.exists, st.value, st.expireAt = true, idO, st.now+int64(ttl)
			}
		}
	}
	unchanged := func() bool {
		// observable state only: an expired record and an absent one are the same store
		preLive := preExists && st.now < preExpire
		if !preLive {
			return !st.live()
		}
		return st.live() && st.value == preValue && st.expireAt == preExpire
	}
	switch op {
	case 0, 1: // campaign, renew
		var role ClusterRole
		var err error
		if op == 0 {
			role, err = e.Campaign(ctx)
		} else {
			err = e.Renew(ctx)
			role = RoleFollower
			if err == nil {
				role = RoleLeader
			}
		}
		if st.badLua != "" {
			verifUnsupported("election talks to the store outside the modelled command/script subset: " + st.badLua)
		}
		told := err == nil && role == RoleLeader
		verifObserve("told", verifB2I(told))
		if st.loseCall {
			verifAssert(!told && unchanged(), "C15.lost-call-has-effect")
			return
		}
		if st.loseRepl {
			verifAssert(!told, "C15.told-leader-without-reply")
		} else {
			if !st.envStepped {
				// (the property states "only": it does not oblige a renewal to succeed on a free lease)
				verifAssert(verifImplies(told, !heldByOther), "C15.success-while-held-by-another")
			}
			if told {
				// told leader => the lease is the caller's, unexpired, and ends within one period from now
				verifAssert(st.live() && st.value == idA && st.expireAt <= st.now+int64(ttl), "C15.told-leader-without-own-lease")
			}
			if op == 1 && !told {
				verifAssert(errors.Is(err, ErrNotLeader), "C15.failed-renew-not-reported-as-loss")
			}
		}
		if heldByOther && !st.envStepped {
			verifAssert(unchanged(), "C15.refusal-changes-lease")
		}
		verifCover(told, "c15.told-leader")
		verifCover(heldByOther, "c15.refused")
	default: // resign
		err := e.Resign(ctx)
		if st.badLua != "" {
			verifUnsupported("election talks to the store outside the modelled command/script subset: " + st.badLua)
		}
		if st.loseCall {
			verifAssert(err != nil && unchanged(), "C15.lost-call-has-effect")
			return
		}
		if verifAnd(live, holder == 1) {
			verifAssert(!st.live(), "C15.resign-keeps-own-lease")
		} else {
			verifAssert(unchanged(), "C15.resign-touches-foreign-lease")
		}
	}
	verifReach("c15.step")
}

// VerifC15Expiry: an instance that stops renewing ceases to be the holder no
// later than ttl after its last successful renewal: any other instance's
// campaign at or after that instant succeeds.
func VerifC15Expiry() {
	st := &verifLeaseStore{}
	st.now = verifI64("t0")
	verifAssume(verifAnd(st.now >= 0, st.now < 1<<40))
	ttl := verifInt("ttl")
	verifAssume(verifAnd(ttl >= 1, ttl <= 600))
	a := verifNewElection(st, ttl, "A")
	b := verifNewElection(st, ttl, "B")
	role, err := a.Campaign(context.Background())
	verifAssert(err == nil && role == RoleLeader, "C15.first-campaign")
	dt := verifI64("dt")
	verifAssume(verifAnd(dt >= 0, dt < 1<<20))
	st.now += dt
	role, err = b.Campaign(context.Background())
	verifAssert(err == nil, "C15.campaign-error")
	verifAssert((role == RoleLeader) == (dt >= int64(ttl)), "C15.takeover-exactly-after-ttl")
}

// verifSlowStore: a lease store whose reply to the first command is still on the wire when the
// caller's deadline passes: the command is executed at the store, then the caller's context is
// cancelled and everything else that can run runs, and only then the reply is delivered.
type verifSlowStore struct {
	*verifLeaseStore
	slowCall int // the n-th Do (1-based) is answered late; 0 = none
	calls    int
	expire   func()
	done     chan struct{} // closed when the late reply leaves the store
}

func (s *verifSlowStore) Do(cmd string, args ...interface{}) (interface{}, error) {
	s.calls++
	rep, err := s.verifLeaseStore.Do(cmd, args...)
	if s.calls == s.slowCall {
		s.expire()
		verifSettle()
		close(s.done)
	}
	return rep, err
}

// VerifC15LateReply: two successive election calls of one instance on one election object (built by
// the real NewElection). The reply of the first call may arrive only after the caller's deadline;
// then time passes at the store and another instance campaigns. Whatever the second call reports
// must be the store's verdict on the second call: told leader => the lease is the caller's and
// unexpired at that moment; a refused renewal is ErrNotLeader.
func VerifC15LateReply() {
	st := &verifLeaseStore{}
	st.now = verifI64("t0")
	verifAssume(verifAnd(st.now >= 0, st.now < 1<<40))
	ttl := verifInt("ttl")
	verifAssume(verifAnd(ttl >= 1, ttl <= 600))
	if verifChoose("held", 2) == 1 { // A holds the lease already (it is leader and renews)
		st.exists, st.value = true, "A"
		st.expireAt = verifI64("expireAt")
		verifAssume(verifAnd(st.expireAt > st.now, st.expireAt <= st.now+int64(ttl)))
	}
	slow := &verifSlowStore{verifLeaseStore: st, done: make(chan struct{})}
	e := verifNewElection(slow, ttl, "A")

	call := func(op int, ctx context.Context) (bool, error) {
		st.cmdInCall = 0
		if op == 0 {
			role, err := e.Campaign(ctx)
			return err == nil && role == RoleLeader, err
		}
		err := e.Renew(ctx)
		return err == nil, err
	}
	ctx1, cancel1 := context.WithCancel(context.Background())
	slow.expire = cancel1
	if verifChoose("late", 2) == 1 {
		slow.slowCall = 1
	}
	told1, _ := call(verifChoose("op1", 2), ctx1)
	if st.badLua != "" {
		verifUnsupported("election talks to the store outside the modelled command/script subset: " + st.badLua)
	}
	if told1 {
		verifAssert(st.live() && st.value == "A", "C15.told-leader-without-own-lease")
	}
	cancel1()
	if slow.slowCall == 1 {
		// the late reply arrives (whoever still waits for it gets it) before anything else happens
		<-slow.done
		verifSettle()
	}
	// time passes; another instance campaigns and gets the lease if it is free
	dt := verifI64("dt")
	verifAssume(verifAnd(dt >= 0, dt < 1<<20))
	st.now += dt
	if !st.live() && verifChoose("rival", 2) == 1 {
		st.exists, st.value, st.expireAt = true, "B", st.now+int64(ttl)
		verifCover(true, "c15.late.rival-took-lease")
	}
	op2 := verifChoose("op2", 2)
	told2, err2 := call(op2, context.Background())
	if st.badLua != "" {
		verifUnsupported("election talks to the store outside the modelled command/script subset: " + st.badLua)
	}
	if told2 {
		verifAssert(st.live() && st.value == "A" && st.expireAt <= st.now+int64(ttl), "C15.told-leader-without-own-lease")
	} else if op2 == 1 {
		verifAssert(errors.Is(err2, ErrNotLeader), "C15.failed-renew-not-reported-as-loss")
	}
	verifCover(told2, "c15.late.told-leader")
	verifCover(slow.slowCall == 1 && !told2, "c15.late.refused-after-late-reply")
	verifReach("c15.late")
}
