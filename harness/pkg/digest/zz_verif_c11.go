package digest

// verifRefCrc16: bitwise CRC-16/XMODEM (poly 0x1021, init 0, no reflection, no xor-out).
func verifRefCrc16(s string) uint16 {
	var crc uint16
	for i := 0; i < len(s); i++ {
		crc ^= uint16(s[i]) << 8
		for b := 0; b < 8; b++ {
			mask := -(crc >> 15) // 0xFFFF when the top bit is set
			crc = crc<<1 ^ (0x1021 & mask)
		}
	}
	return crc
}

// VerifC11Crc16: the real table-driven Crc16 equals bitwise XMODEM for every
// message of up to N bytes. With N >= 3 the third loop iteration starts from
// every 16-bit state (for init 0 the CRC of a 2-byte message is a GF(2)-linear
// bijection of 16 bits - a textbook fact, not machine-checked here), so the
// loop body is exercised on all (state, byte) pairs; extension to any length
// is the induction on the loop written in DESIGN.md, not a solver result.
func VerifC11Crc16() {
	n := verifRange("len", 0, verifParam("NCRC", 3))
	msg := verifStr("m", n)
	verifObserve("crc", int64(Crc16(msg)))
	verifAssert(Crc16(msg) == verifRefCrc16(msg), "C11.crc16.kernel")
}

// VerifC11Crc16Check: published check value.
func VerifC11Crc16Check() {
	verifAssert(Crc16("123456789") == 0x31C3, "C11.crc16.check-value")
	verifAssert(len(crc16tab) == 256, "C11.crc16.table-size")
}

// VerifC03Crc64Step: one step of the real table-driven digest.update from an
// arbitrary 64-bit state equals one step of bitwise CRC-64/Jones (reflected,
// poly 0x95AC9329AC4BC9B5 reversed form 0xAD93D23594C935A9). All 2^72 pairs.
func VerifC03Crc64Step() {
	d := &digest{crc: verifU64("crc")}
	b := verifU8("b")
	want := d.crc ^ uint64(b)
	for i := 0; i < 8; i++ {
		mask := -(want & 1)
		want = want>>1 ^ (0x95AC9329AC4BC9B5 & mask)
	}
	d.update([]byte{b})
	verifAssert(d.crc == want, "C03.crc64.step")
	verifAssert(len(crc64_table) == 256, "C03.crc64.table-size")
}

// VerifC03Crc64Check: published check value of CRC-64/Jones as used by Redis.
func VerifC03Crc64Check() {
	d := New()
	d.Write([]byte("123456789"))
	verifAssert(d.Sum64() == 0xE9C6D914C4B8D9CA, "C03.crc64.check-value")
}
