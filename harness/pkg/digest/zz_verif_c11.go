package digest

// verifRefCrc16: bitwise CRC-16/XMODEM (poly 0x1021, init 0, no reflection, no xor-out).
func verifRefCrc16(s string) uint16 {
	var crc uint16
	for i := 0; i < len(s); i++ {
		crc ^= uint16(s[i]) << 8
		for b := 0; b < 8; b++ {
			mask := -(crc >> 15) // 0xFFFF when the top bit is set
			crc = crc<<1 ^ (0x1021 & mask)
		}
	}
	return crc
}

// VerifC11Crc16: the real table-driven Crc16 equals bitwise XMODEM for every
// message of up to N bytes. With N >= 3 the third loop iteration starts from
// every 16-bit state (for init 0 the CRC of a 2-byte message is a GF(2)-linear
// bijection of 16 bits - a textbook fact, not machine-checked here), so the
// loop body is exercised on all (state, byte) pairs; extension to any length
// is the induction on the loop written in DESIGN.md, not a solver result.
func VerifC11Crc16() {
	n := verifRange("len", 0, verifParam("NCRC", 3))
	msg := verifStr("m", n)
	verifObserve("crc", int64(Crc16(msg)))
	verifAssert(Crc16(msg) == verifRefCrc16(msg), "C11.crc16.kernel")
}

// VerifC11Crc16Check: published check value.
func VerifC11Crc16Check() {
	verifAssert(Crc16("123456789") == 0x31C3, "C11.crc16.check-value")
	verifAssert(len(crc16tab) == 256, "C11.crc16.table-size")
}
