package filter

import (
	"strconv"
	"strings"

	"github.com/mgtv-tech/redis-GunYu/pkg/redis"
)

// ---------------------------------------------------------------------------
// H10a: slot range lists

var verifCurSlot uint16

// verifSlotStub replaces redis.KeyToSlot under the engine (its correctness is C11).
func verifSlotStub(key string) uint16 { return verifCurSlot }

// verifKeyForSlot finds a real key hashing to slot s (native replay only).
func verifKeyForSlot(s uint16) string {
	for i := 0; ; i++ {
		k := "k" + strconv.Itoa(i)
		if redis.KeyToSlot(k) == s {
			return k
		}
	}
}

func verifSlotKey(s uint16) string {
	if verifSymbolic() {
		verifCurSlot = s
		return "k"
	}
	return verifKeyForSlot(s)
}

type verifRange16 struct {
	l, r   uint16
	single bool
}

func verifGenRanges(tag string, k int) ([][]uint16, []verifRange16) {
	var cfg [][]uint16
	var rs []verifRange16
	for i := 0; i < k; i++ {
		l := verifU16(tag + ".l")
		r := verifU16(tag + ".r")
		verifAssume(verifAnd(l < 16384, r < 16384))
		if verifChoose(tag+".form", 2) == 0 {
			cfg = append(cfg, []uint16{l, r})
			rs = append(rs, verifRange16{l, r, false})
		} else {
			cfg = append(cfg, []uint16{l})
			rs = append(rs, verifRange16{l, l, true})
		}
	}
	return cfg, rs
}

func verifInUnion(rs []verifRange16, s uint16) bool {
	in := false
	for _, x := range rs {
		in = verifOr(in, verifAnd(x.l <= x.r, verifAnd(x.l <= s, s <= x.r)))
	}
	return in
}

// VerifC10Ranges: a slot rule accepts a key exactly when its slot lies in the
// union of the configured ranges (any number <= K, any order, overlapping,
// nested, adjacent, single-slot, inverted ranges ignored).
func VerifC10Ranges() {
	k := verifRange("k", 1, verifParam("K", 3))
	cfg, rs := verifGenRanges("w", k)
	f := &RedisKeyFilter{}
	f.InsertSlotWhiteList(cfg)
	s := verifU16("slot")
	verifAssume(s < 16384)
	key := verifSlotKey(s)
	want := verifInUnion(rs, s)
	got := f.slotKeyWhiteList.IsSlotInList(key)
	verifObserve("got", verifB2I(got))
	verifCover(want, "range.hit")
	verifCover(!want, "range.miss")
	verifCover(verifOverlap(rs), "range.overlapping-config")
	ov := verifOverlap(rs)
	verifAssert(verifOr(ov, got == want), "C10.ranges.union/disjoint")
	verifAssert(verifOr(!ov, got == want), "C10.ranges.union/overlapping")
	// FilterSlot with a whitelist only: rejected iff not in the union
	verifAssert(f.FilterSlot(key) == !want, "C10.ranges.filterslot-white")
}

// VerifC10RangesBW: black list wins, white list (if configured) must contain the slot.
func VerifC10RangesBW() {
	f := &RedisKeyFilter{}
	wk := verifRange("wk", 0, 2)
	bk := verifRange("bk", 0, 2)
	wcfg, wrs := verifGenRanges("w", wk)
	bcfg, brs := verifGenRanges("b", bk)
	f.InsertSlotWhiteList(wcfg)
	f.InsertSlotBlackList(bcfg)
	s := verifU16("slot")
	verifAssume(s < 16384)
	key := verifSlotKey(s)
	want := verifOr(verifInUnion(brs, s), verifAnd(wk > 0, !verifInUnion(wrs, s)))
	got := f.FilterSlot(key)
	verifObserve("got", verifB2I(got))
	ov := verifOr(verifOverlap(wrs), verifOverlap(brs))
	verifAssert(verifOr(ov, got == want), "C10.ranges.black-white/disjoint")
	verifAssert(verifOr(!ov, got == want), "C10.ranges.black-white/overlapping")
}

// verifOverlap: some valid range contains another valid range's left end
// (overlapping or nested configuration) - the class of a failing witness.
func verifOverlap(rs []verifRange16) bool {
	ov := false
	for i, a := range rs {
		for j, b := range rs {
			if i != j {
				ov = verifOr(ov, verifAnd(verifAnd(a.l <= a.r, b.l <= b.r), verifAnd(a.l <= b.l, b.l <= a.r)))
			}
		}
	}
	return ov
}

// ---------------------------------------------------------------------------
// H10b: prefix lists (byte-prefix semantics, arbitrary bytes incl. invalid UTF-8)

func verifHasBytePrefix(key, p string) bool {
	if len(p) > len(key) {
		return false
	}
	for i := 0; i < len(p); i++ {
		if key[i] != p[i] {
			return false
		}
	}
	return true
}

func VerifC10Prefix() {
	np := verifRange("np", 1, verifParam("NP", 2))
	var ps []string
	for i := 0; i < np; i++ {
		n := verifRange("plen", 1, verifParam("PL", 2))
		ps = append(ps, verifStr("p", n))
	}
	kn := verifRange("klen", 0, verifParam("KL", 3))
	key := verifStr("key", kn)
	want := false
	for _, p := range ps {
		if verifHasBytePrefix(key, p) {
			want = true
		}
	}
	mode := verifChoose("mode", 2)
	f := &RedisKeyFilter{}
	if mode == 0 {
		f.InsertPrefixKeyBlackList(ps)
		got := f.FilterKey(key)
		verifObserve("got", verifB2I(got))
		verifCover(want, "prefix.hit")
		verifAssert(got == want, "C10.prefix.black/"+verifUtf8Class(ps, key))
	} else {
		f.InsertPrefixKeyWhiteList(ps)
		got := f.FilterKey(key)
		verifObserve("got", verifB2I(got))
		verifAssert(got == !want, "C10.prefix.white/"+verifUtf8Class(ps, key))
	}
}

// verifUtf8Class: "ascii" when every byte involved is < 0x80, else "non-ascii".
func verifUtf8Class(ps []string, key string) string {
	all := key
	for _, p := range ps {
		all += p
	}
	for i := 0; i < len(all); i++ {
		if all[i] >= 0x80 {
			return "non-ascii"
		}
	}
	return "ascii"
}

// ---------------------------------------------------------------------------
// H10d: databases and command names

func VerifC10DbCmd() {
	f := &RedisKeyFilter{}
	n := verifRange("ndb", 0, 3)
	var dbs []int
	for i := 0; i < n; i++ {
		d := verifInt("db")
		verifAssume(d >= 0 && d < 16)
		dbs = append(dbs, d)
	}
	f.InsertDbBlackList(dbs)
	q := verifInt("q")
	verifAssume(q >= 0 && q < 16)
	want := false
	for _, d := range dbs {
		if d == q {
			want = true
		}
	}
	verifAssert(f.FilterDb(q) == want, "C10.db")
	verifAssert(!f.FilterDb(-1), "C10.db.unknown")
}

// VerifC10CmdBlacklist: a configured command name is withheld in the forms the
// replay path presents (the parser upper-cases or lower-cases nothing itself, so
// both canonical spellings must match), other names pass.
func VerifC10CmdBlacklist() {
	f := &RedisKeyFilter{}
	f.InsertCmdBlackList([]string{"FlushAll", "debug"}, true)
	verifAssert(f.FilterCmd("flushall"), "C10.cmd.lower")
	verifAssert(f.FilterCmd("FLUSHALL"), "C10.cmd.upper")
	verifAssert(f.FilterCmd("DEBUG"), "C10.cmd.upper2")
	n := verifRange("n", 1, 4)
	name := verifStr("name", n)
	// names that are neither listed command in either case are not filtered
	verifAssume(verifAsciiLetters(name))
	lc := strings.ToLower(name)
	verifAssume(lc != "flushall" && lc != "debug")
	verifAssert(!f.FilterCmd(name), "C10.cmd.other")
}

// VerifC10CmdLists: command black and white lists of two names (any lengths 1..CL, symbolic lower-case
// letters, so one may be a proper prefix of the other or equal to it), inserted in the listed order or
// together with further insertions afterwards; a queried name (lower or upper case) is withheld iff it is on
// the black list, or a white list exists and it is not on it - exact names, not prefixes.
func VerifC10CmdLists() {
	cl := verifParam("CL", 3)
	lower := func(name string) string {
		n := verifRange(name+".len", 1, cl)
		b := verifBytes(name, n)
		for _, c := range b {
			verifAssume(verifAnd(c >= 'a', c <= 'c'))
		}
		return string(b)
	}
	a, b, q := lower("a"), lower("b"), lower("q")
	white := verifChoose("white", 2) == 1
	f := &RedisKeyFilter{}
	if white {
		f.InsertCmdWhiteList([]string{a, b}, true)
	} else {
		f.InsertCmdBlackList([]string{a}, true)
		// the built-in list is inserted before the user's: a second call on the same filter
		f.InsertCmdBlackList([]string{b}, true)
	}
	listed := verifOr(q == a, q == b)
	query := q
	if verifChoose("upper", 2) == 1 {
		query = strings.ToUpper(q)
	}
	got := f.FilterCmd(query)
	if white {
		verifAssert(got == !listed, "C10.cmdlist.white")
	} else {
		verifAssert(got == listed, "C10.cmdlist.black")
	}
	verifCover(len(a) < len(b) && b[:len(a)] == a, "cmdlist.first-is-prefix-of-second")
	verifCover(len(b) < len(a) && a[:len(b)] == b, "cmdlist.second-is-prefix-of-first")
	verifReach("cmdlist.done")
}

// VerifC10KeyNotFirst: commands whose single key is not their first argument (located behind a count, a
// sub-command or a script): the filter must judge that key - not the script text, the sub-command or the
// count - under a prefix black list, a prefix white list and a slot white list.
func VerifC10KeyNotFirst() {
	type form struct {
		cmd  string
		args []string // "K" marks the key
	}
	forms := []form{
		{"eval", []string{"return 1", "1", "K", "arg"}}, {"evalsha", []string{"abcdef", "1", "K"}},
		{"fcall", []string{"fn", "1", "K", "arg"}}, {"lmpop", []string{"1", "K", "LEFT"}},
		{"zmpop", []string{"1", "K", "MIN"}}, {"xgroup", []string{"CREATE", "K", "grp", "$"}},
		{"bitop", []string{"NOT", "K", "K"}},
		{"set", []string{"K", "v"}}, // control: key first
	}
	fm := forms[verifChoose("form", len(forms))]
	bad := verifChoose("keyRejected", 2) == 1
	kind := verifChoose("filterKind", 3)
	f := &RedisKeyFilter{}
	key := "ok:1"
	switch kind {
	case 0:
		f.InsertPrefixKeyBlackList([]string{"bad:", "return", "abc", "fn", "CRE", "NOT", "1"})
		if bad {
			key = "bad:1"
		}
	case 1:
		f.InsertPrefixKeyWhiteList([]string{"ok:"})
		if bad {
			key = "zz:1"
		}
	default:
		// slot white list holding exactly the slot of "ok:1" (KeyToSlot is stubbed in this unit: C11 decides it)
		s := redis.KeyToSlot("ok:1")
		f.InsertSlotWhiteList([][]uint16{{uint16(s), uint16(s)}})
		if bad {
			key = "zz:1"
			verifAssume(redis.KeyToSlot(key) != s)
		}
	}
	args := make([][]byte, len(fm.args))
	for i, a := range fm.args {
		if a == "K" {
			args[i] = []byte(key)
		} else {
			args[i] = []byte(a)
		}
	}
	_, withheld := f.FilterCmdKey(fm.cmd, args)
	if _, known := CommandKeyIndexes(fm.cmd, args); !known {
		return // a command the implementation's table does not resolve is passed through (outside this obligation)
	}
	verifAssert(withheld == bad, "C10.key-not-first.judged-by-another-argument")
	verifCover(bad && withheld, "keynotfirst.withheld")
	verifReach("keynotfirst.done")
}

func verifAsciiLetters(s string) bool {
	ok := true
	for i := 0; i < len(s); i++ {
		c := s[i]
		ok = verifAnd(ok, verifOr(verifAnd(c >= 'a', c <= 'z'), verifAnd(c >= 'A', c <= 'Z')))
	}
	return ok
}

// ---------------------------------------------------------------------------
// H10c: command projection. Reference key specifications (first, last, step;
// 1-based, negative last counts from the end) transcribed from the Redis
// command documentation for the commands whose layout is beyond doubt.
// Commands of the implementation's table that are not listed here are outside
// this obligation (named in DESIGN.md).

type verifKeySpec struct {
	name              string
	first, last, step int
	minArgs           int // smallest well-formed argument count (without the command name)
}

var verifKeySpecs = []verifKeySpec{
	{"set", 1, 1, 1, 2}, {"setnx", 1, 1, 1, 2}, {"setex", 1, 1, 1, 3}, {"psetex", 1, 1, 1, 3},
	{"getdel", 1, 1, 1, 1}, {"getex", 1, 1, 1, 1}, {"append", 1, 1, 1, 2}, {"setbit", 1, 1, 1, 3},
	{"setrange", 1, 1, 1, 3}, {"incr", 1, 1, 1, 1}, {"decr", 1, 1, 1, 1}, {"incrby", 1, 1, 1, 2},
	{"decrby", 1, 1, 1, 2}, {"incrbyfloat", 1, 1, 1, 2}, {"getset", 1, 1, 1, 2},
	{"rpush", 1, 1, 1, 2}, {"lpush", 1, 1, 1, 2}, {"rpushx", 1, 1, 1, 2}, {"lpushx", 1, 1, 1, 2},
	{"linsert", 1, 1, 1, 4}, {"rpop", 1, 1, 1, 1}, {"lpop", 1, 1, 1, 1}, {"lset", 1, 1, 1, 3},
	{"ltrim", 1, 1, 1, 3}, {"lrem", 1, 1, 1, 3},
	{"rpoplpush", 1, 2, 1, 2}, {"lmove", 1, 2, 1, 4}, {"smove", 1, 2, 1, 3},
	{"rename", 1, 2, 1, 2}, {"renamenx", 1, 2, 1, 2}, {"copy", 1, 2, 1, 2},
	{"sadd", 1, 1, 1, 2}, {"srem", 1, 1, 1, 2}, {"spop", 1, 1, 1, 1},
	{"sinterstore", 1, -1, 1, 2}, {"sunionstore", 1, -1, 1, 2}, {"sdiffstore", 1, -1, 1, 2},
	{"zadd", 1, 1, 1, 3}, {"zincrby", 1, 1, 1, 3}, {"zrem", 1, 1, 1, 2},
	{"zremrangebyscore", 1, 1, 1, 3}, {"zremrangebyrank", 1, 1, 1, 3}, {"zremrangebylex", 1, 1, 1, 3},
	{"hset", 1, 1, 1, 3}, {"hsetnx", 1, 1, 1, 3}, {"hmset", 1, 1, 1, 3}, {"hincrby", 1, 1, 1, 3},
	{"hincrbyfloat", 1, 1, 1, 3}, {"hdel", 1, 1, 1, 2},
	{"mset", 1, -1, 2, 2}, {"msetnx", 1, -1, 2, 2},
	{"expire", 1, 1, 1, 2}, {"expireat", 1, 1, 1, 2}, {"pexpire", 1, 1, 1, 2}, {"pexpireat", 1, 1, 1, 2},
	{"persist", 1, 1, 1, 1}, {"restore", 1, 1, 1, 3},
	{"bitop", 2, -1, 1, 3}, {"geoadd", 1, 1, 1, 4}, {"pfadd", 1, 1, 1, 1}, {"pfmerge", 1, -1, 1, 1},
	{"xadd", 1, 1, 1, 4}, {"xdel", 1, 1, 1, 2}, {"xtrim", 1, 1, 1, 3},
	{"zrangestore", 1, 2, 1, 4}, {"zpopmin", 1, 1, 1, 1}, {"zpopmax", 1, 1, 1, 1},
	{"del", 1, -1, 1, 1}, {"unlink", 1, -1, 1, 1},
}

func verifRefKeyIdx(sp verifKeySpec, argc int) []int {
	last := sp.last
	if last < 0 {
		last = argc + 1 + last
	}
	var idx []int
	for p := sp.first; p <= last; p += sp.step {
		idx = append(idx, p-1)
	}
	return idx
}

func verifBytesEq(a, b []byte) bool { return string(a) == string(b) }

// VerifC10Projection: for every listed command and argument count, with each
// key independently accepted or rejected by the prefix rule: no key rejected
// => unchanged; DEL/UNLINK/MSET => exactly the accepted keys (and values) in
// order, withheld when none is left; any other command touching a rejected key
// is withheld entirely; non-key arguments never influence the verdict.
func VerifC10Projection() {
	ci := verifChoose("cmd", len(verifKeySpecs))
	sp := verifKeySpecs[ci]
	extra := verifRange("extra", 0, verifParam("EXTRA", 2))
	argc := sp.minArgs + extra*sp.step
	upper := verifChoose("upper", 2) == 1
	cmd := sp.name
	if upper {
		cmd = strings.ToUpper(cmd)
	}
	f := &RedisKeyFilter{}
	f.InsertPrefixKeyBlackList([]string{"r"})
	args := make([][]byte, argc)
	for i := range args {
		// first byte decides the verdict of the prefix rule; 2nd byte identifies the position
		b := verifU8("a0")
		verifAssume(verifOr(b == 'r', b == 'a'))
		args[i] = []byte{b, byte('0' + i)}
	}
	keyIdx := verifRefKeyIdx(sp, argc)
	isKey := make([]bool, argc)
	for _, k := range keyIdx {
		isKey[k] = true
	}
	nRejected, nKeys := 0, 0
	for i := range args {
		if isKey[i] {
			nKeys++
			if args[i][0] == 'r' {
				nRejected++
			}
		}
	}
	orig := make([][]byte, argc)
	copy(orig, args)
	out, reject := f.FilterCmdKey(cmd, args)
	verifObserve("reject", verifB2I(reject))
	verifObserve("nout", int64(len(out)))
	id := "C10.projection/" + sp.name
	switch {
	case nRejected == 0:
		verifReach("proj.none-rejected")
		ok := !reject && len(out) == argc
		for i := 0; ok && i < argc; i++ {
			ok = verifBytesEq(out[i], orig[i])
		}
		verifAssert(ok, id+"/unchanged")
	case nRejected == nKeys:
		verifReach("proj.all-rejected")
		verifAssert(reject, id+"/all-rejected-withheld")
	case sp.name == "del" || sp.name == "unlink" || sp.name == "mset":
		verifReach("proj.partial")
		var want [][]byte
		for _, k := range keyIdx {
			if orig[k][0] != 'r' {
				want = append(want, orig[k])
				if sp.name == "mset" {
					want = append(want, orig[k+1])
				}
			}
		}
		ok := !reject && len(out) == len(want)
		for i := 0; ok && i < len(want); i++ {
			ok = verifBytesEq(out[i], want[i])
		}
		verifAssert(ok, id+"/projected")
	default:
		verifReach("proj.withheld")
		verifAssert(reject, id+"/withheld")
	}
}
