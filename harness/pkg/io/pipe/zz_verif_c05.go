package pipe

// C05 — the in-memory ring behind every cache reader's pipe is a FIFO: one
// step (a write or a read of arbitrary length) from an arbitrary valid ring
// state keeps exactly the bytes written, in order, and never overwrites unread
// bytes. The position counters are arbitrary 64-bit values (symbolic).

func verifRingContent(p *memBuffer) []byte {
	var out []byte
	n := p.wpos - p.rpos
	for i := uint64(0); i < n; i++ {
		out = append(out, p.b[(p.rpos+i)%p.size])
	}
	return out
}

func VerifC05RingStep() {
	n := verifParam("RING", 4)
	p := &memBuffer{b: verifBytes("ring", n), size: uint64(n)}
	used := verifRange("used", 0, n)
	p.rpos = verifU64("rpos")
	verifAssume(p.rpos < 1<<62) // 2^62 bytes through one pipe are outside the claim
	p.wpos = p.rpos + uint64(used)
	before := verifRingContent(p)

	if verifChoose("op", 2) == 0 {
		ln := verifRange("wlen", 0, n+1)
		chunk := verifBytes("w", ln)
		k, err := p.writeSome(chunk)
		verifAssert(err == nil, "C05.ring.write-error")
		verifAssert(k >= 0 && k <= ln && k <= n-used, "C05.ring.write-overruns-unread-bytes")
		if ln > 0 && used < n {
			verifAssert(k > 0, "C05.ring.write-makes-no-progress")
		}
		after := verifRingContent(p)
		verifAssert(len(after) == used+k, "C05.ring.content-length-after-write")
		for i := 0; i < len(after) && i < used+k; i++ {
			if i < used {
				verifAssert(after[i] == before[i], "C05.ring.write-overruns-unread-bytes")
			} else {
				verifAssert(after[i] == chunk[i-used], "C05.ring.written-bytes-differ")
			}
		}
		verifReach("c05.ring.write")
	} else {
		ln := verifRange("rlen", 1, n+1)
		buf := make([]byte, ln)
		k, err := p.readSome(buf)
		verifAssert(err == nil, "C05.ring.read-error")
		verifAssert(k >= 0 && k <= ln && k <= used, "C05.ring.read-beyond-written")
		if used > 0 {
			verifAssert(k > 0, "C05.ring.read-makes-no-progress")
		}
		for i := 0; i < k && i < used; i++ {
			verifAssert(buf[i] == before[i], "C05.ring.read-bytes-differ")
		}
		after := verifRingContent(p)
		verifAssert(len(after) == used-k, "C05.ring.content-length-after-read")
		for i := 0; i < len(after) && i+k < used; i++ {
			verifAssert(after[i] == before[i+k], "C05.ring.read-loses-bytes")
		}
		verifReach("c05.ring.read")
	}
}
