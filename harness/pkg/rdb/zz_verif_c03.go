package rdb

// C03: RDB length/string encodings (K1), per-type expansion through the real
// Loader (K5), DUMP framing (K6), chunking of big values (K7), intset (K4).
// Reference encodings per DESIGN.md D3, D6, D7.

import (
	"bytes"
	"encoding/binary"
	"math"
	"strconv"
)

// ---------------- K1: lengths and strings ----------------

func VerifC03Length() {
	c := verifChoose("class", 4)
	var in []byte
	var want uint64
	switch c {
	case 0: // 6 bit
		b := verifU8("b")
		verifAssume(b < 0x40)
		in, want = []byte{b}, uint64(b)
	case 1: // 14 bit
		b0, b1 := verifU8("b0"), verifU8("b1")
		verifAssume(verifAnd(b0 >= 0x40, b0 < 0x80))
		in, want = []byte{b0, b1}, uint64(b0&0x3f)<<8|uint64(b1)
	case 2: // 32 bit big endian
		b := verifBytes("b", 4)
		in = append([]byte{0x80}, b...)
		want = uint64(b[0])<<24 | uint64(b[1])<<16 | uint64(b[2])<<8 | uint64(b[3])
	default: // 64 bit big endian
		b := verifBytes("b", 8)
		in = append([]byte{0x81}, b...)
		for _, x := range b {
			want = want<<8 | uint64(x)
		}
	}
	r := NewRdbReader(bytes.NewReader(in))
	got, enc, err := r.readEncodedLength()
	verifAssert(err == nil && !enc, "C03.length.decode")
	verifAssert(got == want, "C03.length.value")
	r2 := NewRdbReader(bytes.NewReader(in))
	got64, err := r2.ReadLength64()
	verifAssert(err == nil && got64 == want, "C03.length.value64")
	verifObserve("len", int64(got))
}

func VerifC03String() {
	c := verifChoose("class", 5)
	var in []byte
	var wantS []byte
	var wantN int64
	isNum := false
	switch c {
	case 0: // raw, 6-bit length
		n := verifRange("n", 0, 3)
		s := verifBytes("s", n)
		in, wantS = append([]byte{byte(n)}, s...), s
	case 1: // int8
		b := verifBytes("i", 1)
		in, wantN, isNum = append([]byte{0xC0}, b...), int64(int8(b[0])), true
	case 2: // int16 LE
		b := verifBytes("i", 2)
		in, wantN, isNum = append([]byte{0xC1}, b...), int64(int16(uint16(b[0])|uint16(b[1])<<8)), true
	case 3: // int32 LE
		b := verifBytes("i", 4)
		in, wantN, isNum = append([]byte{0xC2}, b...), int64(int32(uint32(b[0])|uint32(b[1])<<8|uint32(b[2])<<16|uint32(b[3])<<24)), true
	default: // LZF: two literal runs and one back reference (lzf_d.c)
		l := verifBytes("lit", 2)
		// ctrl=1: copy 2 literals; ctrl=0x20|0: len=1 (+2 = 3 bytes) from offset 1 back => ref = o-0-1-1 ... use distance 2
		comp := []byte{1, l[0], l[1], 0x20, 1}
		in = append([]byte{0xC3, byte(len(comp)), 5}, comp...)
		wantS = []byte{l[0], l[1], l[0], l[1], l[0]}
	}
	r := NewRdbReader(bytes.NewReader(in))
	got, err := r.ReadString()
	verifAssert(err == nil, "C03.string.decode")
	if err != nil {
		return
	}
	if isNum {
		verifAssert(string(got) == strconv.FormatInt(wantN, 10), "C03.string.int-value")
	} else {
		verifAssert(bytes.Equal(got, wantS), "C03.string.bytes")
	}
}

// ---------------- K4: intset ----------------

type verifCall struct {
	cmd  string
	args []interface{}
}

func verifArgBytes(a interface{}) []byte {
	switch v := a.(type) {
	case []byte:
		return v
	case string:
		return []byte(v)
	}
	return nil
}

// ---------------- K5/K6: values through the real loader ----------------

func verifRawStr(b []byte) []byte { return append([]byte{byte(len(b))}, b...) }

// ziplist / listpack / intset blobs with 6-bit strings resp. small ints
func verifZiplistBlob(elems [][]byte) []byte {
	b := []byte{0, 0, 0, 0, 0, 0, 0, 0, byte(len(elems)), 0}
	for _, e := range elems {
		b = append(b, 0, byte(len(e)))
		b = append(b, e...)
	}
	return append(b, 0xFF)
}

func verifListpackBlob(elems [][]byte) []byte {
	b := []byte{0, 0, 0, 0, byte(len(elems)), 0}
	for _, e := range elems {
		b = append(b, 0x80|byte(len(e)))
		b = append(b, e...)
		b = append(b, byte(len(e)+1))
	}
	return append(b, 0xFF)
}

type verifObject struct {
	rtype byte
	value []byte      // serialized value exactly as in the RDB
	calls []verifCall // expected expansion
}

// verifGenObject builds one value of RDB type index t with n elements of 1 symbolic byte.
func verifGenObject(t int, key []byte, n int) verifObject {
	el := func() []byte { return verifBytes("el", 1) }
	var o verifObject
	switch t {
	case 0: // string
		v := verifBytes("sv", 2)
		o = verifObject{rtype: RdbTypeString, value: verifRawStr(v), calls: []verifCall{{"set", []interface{}{key, v}}}}
	case 1, 2: // list, set: n raw strings
		o.rtype, o.value = RdbTypeList, []byte{byte(n)}
		cmd := "RPUSH"
		if t == 2 {
			o.rtype, cmd = RdbTypeSet, "SADD"
		}
		for i := 0; i < n; i++ {
			e := el()
			o.value = append(o.value, verifRawStr(e)...)
			o.calls = append(o.calls, verifCall{cmd, []interface{}{key, e}})
		}
	case 3: // hash table
		o.rtype, o.value = RdbTypeHash, []byte{byte(n)}
		for i := 0; i < n; i++ {
			f, v := el(), el()
			o.value = append(append(o.value, verifRawStr(f)...), verifRawStr(v)...)
			o.calls = append(o.calls, verifCall{"HSET", []interface{}{key, f, v}})
		}
	case 4: // zset2: member + binary double (LE)
		o.rtype, o.value = RdbTypeZSet2, []byte{byte(n)}
		for i := 0; i < n; i++ {
			m, sc := el(), verifBytes("score", 8)
			o.value = append(append(o.value, verifRawStr(m)...), sc...)
			o.calls = append(o.calls, verifCall{"ZADD", []interface{}{key, binary.LittleEndian.Uint64(sc), m}})
		}
	case 5, 6, 7: // list ziplist, quicklist (1 node), quicklist2 (packed node)
		var es [][]byte
		for i := 0; i < n; i++ {
			es = append(es, el())
			o.calls = append(o.calls, verifCall{"RPUSH", []interface{}{key, es[i]}})
		}
		switch t {
		case 5:
			o.rtype, o.value = RdbTypeListZiplist, verifRawStr(verifZiplistBlob(es))
		case 6:
			o.rtype, o.value = RdbTypeQuicklist, append([]byte{1}, verifRawStr(verifZiplistBlob(es))...)
		default:
			o.rtype, o.value = RdbTypeQuicklist2, append([]byte{1, 2}, verifRawStr(verifListpackBlob(es))...)
		}
	case 8, 9: // hash ziplist / listpack: pairs
		var es [][]byte
		for i := 0; i < n; i++ {
			f, v := el(), el()
			es = append(es, f, v)
			o.calls = append(o.calls, verifCall{"HSET", []interface{}{key, f, v}})
		}
		if t == 8 {
			o.rtype, o.value = RdbTypeHashZiplist, verifRawStr(verifZiplistBlob(es))
		} else {
			o.rtype, o.value = RdbTypeHashListpack, verifRawStr(verifListpackBlob(es))
		}
	case 10, 11: // zset ziplist / listpack: (member, score) pairs, scores as strings
		var es [][]byte
		for i := 0; i < n; i++ {
			m, sc := el(), el()
			es = append(es, m, sc)
			o.calls = append(o.calls, verifCall{"ZADD", []interface{}{key, sc, m}})
		}
		if t == 10 {
			o.rtype, o.value = RdbTypeZSetZiplist, verifRawStr(verifZiplistBlob(es))
		} else {
			o.rtype, o.value = RdbTypeZSetListpack, verifRawStr(verifListpackBlob(es))
		}
	case 12: // set listpack
		var es [][]byte
		for i := 0; i < n; i++ {
			es = append(es, el())
			o.calls = append(o.calls, verifCall{"SADD", []interface{}{key, es[i]}})
		}
		o.rtype, o.value = RdbTypeSetListpack, verifRawStr(verifListpackBlob(es))
	default: // 13: intset of width 2/4/8
		w := []int{2, 4, 8}[verifChoose("intw", 3)]
		blob := []byte{byte(w), 0, 0, 0, byte(n), 0, 0, 0}
		for i := 0; i < n; i++ {
			b := verifBytes("int", w)
			blob = append(blob, b...)
			var u uint64
			for j := w - 1; j >= 0; j-- {
				u = u<<8 | uint64(b[j])
			}
			sh := uint(64 - 8*w)
			o.calls = append(o.calls, verifCall{"SADD", []interface{}{key, int64(u<<sh) >> sh}})
		}
		o.rtype, o.value = RdbTypeSetIntset, verifRawStr(blob)
	}
	return o
}

const verifNObjTypes = 14

func verifSameArg(got interface{}, want interface{}) bool {
	switch w := want.(type) {
	case []byte:
		g := verifArgBytes(got)
		return g != nil && bytes.Equal(g, w)
	case int64: // decimal rendering of an integer
		return string(verifArgBytes(got)) == strconv.FormatInt(w, 10)
	case uint64: // IEEE bits of a score
		f, ok := got.(float64)
		return ok && math.Float64bits(f) == w
	}
	return false
}

// VerifC03Loader: [SELECTDB][EXPIRETIME_MS] type key value EOF through the real Loader.
func VerifC03Loader() {
	t := verifChoose("type", verifNObjTypes)
	n := verifRange("n", 1, verifParam("NEL", 2))
	key := verifBytes("key", 2)
	o := verifGenObject(t, key, n)
	var rdb []byte
	db := 0
	if verifChoose("selectdb", 2) == 1 {
		db = 1 + verifChoose("db", 2)
		rdb = append(rdb, RdbFlagSelectDB, byte(db))
	}
	var expire uint64
	switch verifChoose("expire", 3) {
	case 1: // EXPIRETIME_MS: 8 bytes, unix milliseconds
		eb := verifBytes("exp", 8)
		expire = binary.LittleEndian.Uint64(eb)
		rdb = append(append(rdb, RdbFlagExpiryMS), eb...)
	case 2: // EXPIRETIME: 4 bytes, unix seconds (RDB written before Redis 2.6 or by other tools)
		eb := verifBytes("exps", 4)
		expire = uint64(binary.LittleEndian.Uint32(eb)) * 1000
		rdb = append(append(rdb, RdbFlagExpiry), eb...)
		verifCover(true, "c03.loader.expiry-in-seconds")
	}
	rdb = append(rdb, o.rtype)
	rdb = append(rdb, verifRawStr(key)...)
	rdb = append(rdb, o.value...)
	rdb = append(rdb, RdbFlagEOF)

	l := NewLoader(bytes.NewReader(rdb))
	l.rdbVersion = 11
	e, err := l.Next()
	verifAssert(err == nil && e != nil, "C03.loader.error-on-valid")
	if err != nil || e == nil {
		return
	}
	verifAssert(bytes.Equal(e.Key, key), "C03.loader.key")
	verifAssert(e.DB == db, "C03.loader.db")
	verifAssert(e.ExpireAt == expire, "C03.loader.expire")
	verifAssert(e.Type == o.rtype, "C03.loader.type")
	var calls []verifCall
	var execErr error
	func() {
		defer func() {
			if r := recover(); r != nil {
				execErr = errVerifPanic
			}
		}()
		e.ObjectParser.ExecCmd(func(cmd string, args ...interface{}) error {
			calls = append(calls, verifCall{cmd, args})
			return nil
		})
	}()
	verifAssert(execErr == nil, "C03.loader.expand-panic")
	verifObserve("ncalls", int64(len(calls)))
	verifAssert(len(calls) == len(o.calls), "C03.loader.element-count")
	for i := 0; i < len(calls) && i < len(o.calls); i++ {
		g, w := calls[i], o.calls[i]
		ok := g.cmd == w.cmd && len(g.args) == len(w.args)
		for j := 0; ok && j < len(w.args); j++ {
			ok = verifSameArg(g.args[j], w.args[j])
		}
		verifAssert(ok, "C03.loader.element")
	}
	// K6: DUMP payload = type, the exact value bytes, 06 00, CRC64 (LE) of all that
	dump := e.DumpValue()
	verifAssert(len(dump) == 1+len(o.value)+10, "C03.dump.length")
	if len(dump) == 1+len(o.value)+10 {
		verifAssert(dump[0] == o.rtype, "C03.dump.type")
		verifAssert(bytes.Equal(dump[1:1+len(o.value)], o.value), "C03.dump.value-bytes")
		verifAssert(dump[len(dump)-10] == 6 && dump[len(dump)-9] == 0, "C03.dump.version")
		c := verifCrc64(dump[:len(dump)-8])
		verifAssert(binary.LittleEndian.Uint64(dump[len(dump)-8:]) == c, "C03.dump.crc")
		verifAssert(e.ObjectParser.ValueDumpSize() == len(dump), "C03.dump.size")
	}
	verifAssert(e.CanRestore() && !e.ObjectParser.IsSplited() && e.FirstBin(), "C03.loader.flags")
	// alignment: the next thing read is the EOF opcode
	e2, err := l.Next()
	verifAssert(err == nil && e2 == nil, "C03.loader.alignment")
	verifReach("loader.done")
}

type verifErr string

func (e verifErr) Error() string { return string(e) }

var errVerifPanic error = verifErr("panic")

// ---------------- K7: chunking ----------------

// VerifC03Chunked: a hash table value larger than the chunk threshold is
// delivered in several entries whose expansions concatenate to the whole value.
func VerifC03Chunked() {
	old := maxBinEntryBuffer
	maxBinEntryBuffer = verifRange("threshold", 1, 6)
	defer func() { maxBinEntryBuffer = old }()
	n := verifRange("n", 2, verifParam("NCH", 3))
	key := verifBytes("key", 1)
	val := []byte{byte(n)}
	var want [][2][]byte
	for i := 0; i < n; i++ {
		f, v := verifBytes("f", 1), verifBytes("v", 1)
		val = append(append(val, verifRawStr(f)...), verifRawStr(v)...)
		want = append(want, [2][]byte{f, v})
	}
	rdb := append([]byte{RdbTypeHash}, verifRawStr(key)...)
	rdb = append(rdb, val...)
	rdb = append(rdb, RdbTypeString)
	rdb = append(rdb, verifRawStr([]byte("z"))...)
	rdb = append(rdb, verifRawStr([]byte("y"))...)
	rdb = append(rdb, RdbFlagEOF)
	l := NewLoader(bytes.NewReader(rdb))
	l.rdbVersion = 11
	var got [][2][]byte
	chunks := 0
	for chunks < n+1 {
		e, err := l.Next()
		verifAssert(err == nil && e != nil, "C03.chunk.error-on-valid")
		if err != nil || e == nil {
			return
		}
		if e.Type != RdbTypeHash {
			// the following key: loader stayed aligned
			verifAssert(e.Type == RdbTypeString && bytes.Equal(e.Key, []byte("z")), "C03.chunk.alignment")
			break
		}
		chunks++
		verifAssert(bytes.Equal(e.Key, key), "C03.chunk.key")
		verifAssert(e.FirstBin() == (chunks == 1), "C03.chunk.firstbin")
		e.ObjectParser.ExecCmd(func(cmd string, args ...interface{}) error {
			if cmd == "HSET" && len(args) == 3 {
				got = append(got, [2][]byte{verifArgBytes(args[1]), verifArgBytes(args[2])})
			}
			return nil
		})
		if chunks > 1 || e.ObjectParser.IsSplited() {
			verifCover(true, "chunk.split")
			verifAssert(e.ObjectParser.IsSplited(), "C03.chunk.issplited")
		}
	}
	verifObserve("chunks", int64(chunks))
	verifAssert(len(got) == n, "C03.chunk.element-count")
	for i := 0; i < len(got) && i < n; i++ {
		verifAssert(bytes.Equal(got[i][0], want[i][0]) && bytes.Equal(got[i][1], want[i][1]), "C03.chunk.element")
	}
	verifReach("chunk.done")
}

// verifCrc64 runs the repository's own CRC64 (its kernel is checked in pkg/digest).
func verifCrc64(b []byte) uint64 {
	l := NewLoader(bytes.NewReader(nil))
	l.crc.Write(b)
	return l.crc.Sum64()
}

// VerifC03Header: accepted RDB versions 1..13, signature checked.
func VerifC03Header() {
	d := verifBytes("ver", 4)
	for _, x := range d {
		verifAssume(verifAnd(x >= '0', x <= '9'))
	}
	l := NewLoader(bytes.NewReader(append([]byte("REDIS"), d...)))
	err := l.Header()
	v := int64(d[0]-'0')*1000 + int64(d[1]-'0')*100 + int64(d[2]-'0')*10 + int64(d[3]-'0')
	verifAssert((err == nil) == (v >= 1 && v <= 13), "C03.header.version-gate")
}
