package rdb

// C04-H04a: truncated or altered snapshots through the real ParseRdb.

import (
	"bytes"
	"encoding/binary"
)

// verifValidRdb builds a small valid, checksummed RDB (version 11) holding one
// key of each of several encodings.
func verifValidRdb(variant int) []byte {
	b := []byte("REDIS0011")
	b = append(b, RdbFlagSelectDB, 0)
	switch variant {
	case 0: // string + list
		b = append(b, RdbTypeString, 1, 'a', 2, 'v', 'w')
		b = append(b, RdbTypeList, 1, 'l', 2, 1, 'x', 1, 'y')
	case 1: // hash ziplist + expiry
		b = append(b, RdbFlagExpiryMS, 1, 2, 3, 4, 5, 6, 7, 0)
		zl := verifZiplistBlob([][]byte{[]byte("f"), []byte("v")})
		b = append(b, RdbTypeHashZiplist, 1, 'h')
		b = append(b, verifRawStr(zl)...)
	default: // set listpack + intset
		lp := verifListpackBlob([][]byte{[]byte("m")})
		b = append(b, RdbTypeSetListpack, 1, 's')
		b = append(b, verifRawStr(lp)...)
		b = append(b, RdbTypeSetIntset, 1, 'i')
		b = append(b, verifRawStr([]byte{2, 0, 0, 0, 1, 0, 0, 0, 7, 0})...)
	}
	b = append(b, RdbFlagEOF)
	crc := verifCrc64(b)
	var c [8]byte
	binary.LittleEndian.PutUint64(c[:], crc)
	return append(b, c[:]...)
}

type verifOutcome struct {
	entries int
	errs    int
	done    bool
	errThenDone bool
	doneBeforeErr bool
}

func verifParseAll(data []byte) verifOutcome {
	var o verifOutcome
	// the hand-over buffer between parser and replay may be roomy or tight (a parser that runs ahead of
	// a slow replay finds it full)
	pipe := ParseRdb(bytes.NewReader(data), nil, []int{8, 1}[verifChoose("pipeSize", 2)])
	for e := range pipe {
		switch {
		case e.Err != nil:
			o.errs++
			if o.done {
				o.doneBeforeErr = true
			}
		case e.Done:
			o.done = true
			if o.errs > 0 {
				o.errThenDone = true
			}
		default:
			o.entries++
			// expanding the value must not crash either (errors are reported by panics caught downstream)
			func() {
				defer func() { recover() }()
				if e.ObjectParser != nil {
					e.ObjectParser.ExecCmd(func(cmd string, args ...interface{}) error { return nil })
				}
			}()
		}
	}
	return o
}

// VerifC04Truncated: every proper prefix of a valid snapshot ends with an
// error entry and never reports completion on its own.
func VerifC04Truncated() {
	data := verifValidRdb(verifChoose("variant", 3))
	full := verifParseAll(data)
	verifAssert(full.errs == 0 && full.done, "C04.valid-snapshot-rejected")
	l := verifRange("len", 0, len(data)-1)
	o := verifParseAll(data[:l])
	verifObserve("errs", int64(o.errs))
	verifAssert(o.errs > 0, "C04.truncated.no-error")
	verifAssert(!o.doneBeforeErr, "C04.truncated.done-before-error")
	verifReach("truncated.done")
}

// VerifC04Altered: any single byte covered by the checksum replaced by any
// other value is reported as an error (never a clean completion).
func VerifC04Altered() {
	data := verifValidRdb(verifChoose("variant", 3))
	pos := verifRange("pos", 0, len(data)-9) // header .. EOF opcode: the bytes the CRC covers
	nb := verifU8("newbyte")
	verifAssume(nb != data[pos])
	mut := append([]byte(nil), data...)
	mut[pos] = nb
	o := verifParseAll(mut)
	verifObserve("errs", int64(o.errs))
	verifAssert(o.errs > 0, "C04.altered.accepted")
	verifAssert(!o.doneBeforeErr, "C04.altered.done-before-error")
	verifReach("altered.done")
}
