package rdb

import "bytes"

// VerifNewLoader: a Loader over an in-memory snapshot body (no header), with the value-splitting
// threshold lowered to maxBin bytes (maxBinEntryBuffer is an assignable package variable); the
// returned function restores the threshold.
func VerifNewLoader(body []byte, maxBin int) (*Loader, func()) {
	old := maxBinEntryBuffer
	maxBinEntryBuffer = maxBin
	l := NewLoader(bytes.NewReader(body))
	l.rdbVersion = 11
	return l, func() { maxBinEntryBuffer = old }
}
