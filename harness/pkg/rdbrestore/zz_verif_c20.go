package rdbrestore

// C20 (and the replay hand-off part of C03): RdbReplay.Replay against fakeredis
// with a stub rdb.Parser whose flags and expansion are chosen by the harness.

import (
	"strconv"

	"github.com/mgtv-tech/redis-GunYu/pkg/rdb"
)

type verifParser struct {
	key        []byte
	canRestore bool
	split      bool
	first      bool
	dumpSize   int
	cmds       [][]string // expansion: command + args after the key
	dump       []byte
}

func (p *verifParser) Type() int             { return rdb.RdbObjectList }
func (p *verifParser) RdbType() int          { return rdb.RdbTypeList }
func (p *verifParser) ReadBuffer(*rdb.Loader) {}
func (p *verifParser) ExecCmd(cb rdb.RdbObjExecutor) {
	for _, c := range p.cmds {
		args := []interface{}{p.key}
		for _, a := range c[1:] {
			args = append(args, []byte(a))
		}
		if err := cb(c[0], args...); err != nil {
			panic(err)
		}
	}
}
func (p *verifParser) Key() []byte             { return p.key }
func (p *verifParser) Value() []byte           { return nil }
func (p *verifParser) CreateValueDump() []byte { return p.dump }
func (p *verifParser) ValueDumpSize() int      { return p.dumpSize }
func (p *verifParser) FirstBin() bool          { return p.first }
func (p *verifParser) IsSplited() bool         { return p.split }
func (p *verifParser) DB() uint32              { return 0 }
func (p *verifParser) CanRestore() bool        { return p.canRestore }

const verifNowMs = 1700000000000

func verifOpsEq(a, b []string) bool {
	if len(a) != len(b) {
		return false
	}
	for i := range a {
		if a[i] != b[i] {
			return false
		}
	}
	return true
}

// VerifC20Policy: pre-existing key x policy x replay path (RESTORE, expansion,
// two chunks) x snapshot expiry.
func VerifC20Policy() {
	verifClockNs = verifNowMs * 1000000
	policy := []string{"replace", "ignore", "error"}[verifChoose("policy", 3)]
	preexist := verifChoose("preexist", 2) == 1
	preTTL := preexist && verifChoose("prettl", 2) == 1
	// 0 = RESTORE, 1 = expansion (one entry), 2 = expansion in two chunks, 3 = RESTORE refused by a
	// target that cannot load the payload ("Bad data format"), followed by the fallback expansion
	path := verifChoose("path", 4)
	hasExpire := verifChoose("expire", 2) == 1
	var expireAt uint64
	if hasExpire {
		expireAt = verifU64("expireAt")
		verifAssume(verifAnd(expireAt > 0, expireAt < 1<<50))
	}

	f := verifNewFake()
	key := "k"
	if preexist {
		f.request("rpush", []interface{}{key, "old"})
		if preTTL {
			f.request("pexpire", []interface{}{key, "777"})
		}
	}
	nPre := len(f.log)

	f.badDump = path == 3
	rr := &RdbReplay{Client: f, RedisVersion: "7.0", EnableRestore: path == 0 || path == 3, MaxProtoBulkLen: 1 << 20, KeyExists: policy}
	mkEntry := func(first, split bool, cmds [][]string) *rdb.BinEntry {
		p := &verifParser{key: []byte(key), canRestore: true, split: split, first: first, dumpSize: 20, cmds: cmds, dump: []byte("DUMP")}
		return &rdb.BinEntry{DB: 0, Key: []byte(key), Type: rdb.RdbTypeList, ExpireAt: expireAt, ObjectParser: p}
	}
	var err error
	var wantOps []string
	switch path {
	case 0:
		err = rr.Replay(mkEntry(true, false, [][]string{{"rpush", "a"}, {"rpush", "b"}}))
		wantOps = []string{"restore DUMP"}
	case 1, 3:
		err = rr.Replay(mkEntry(true, false, [][]string{{"rpush", "a"}, {"rpush", "b"}}))
		wantOps = []string{"rpush a", "rpush b"}
	default:
		err = rr.Replay(mkEntry(true, true, [][]string{{"rpush", "a"}}))
		if err == nil {
			err = rr.Replay(mkEntry(false, true, [][]string{{"rpush", "b"}}))
		}
		wantOps = []string{"rpush a", "rpush b"}
	}
	verifObserve("err", verifB2I(err != nil))
	o := f.st.obj(0, key, false)
	cls := policy + "/" + []string{"restore", "expand", "chunked", "restore-fallback"}[path]

	// did any request after the preparation modify the key?
	touched := false
	for _, r := range f.log[nPre:] {
		switch r.cmd {
		case "exists", "select", "ping":
		case "restore":
			// a RESTORE without REPLACE on an existing key is refused by the server: no modification
			rep := false
			for _, a := range r.args[3:] {
				if verifArgStr(a) == "REPLACE" || verifArgStr(a) == "replace" {
					rep = true
				}
			}
			if (rep || !preexist) && !f.badDump {
				touched = true
			}
		default:
			touched = true
		}
	}

	if !preexist || policy == "replace" {
		verifAssert(err == nil, "C20.replace.error/"+cls)
		if err != nil {
			return
		}
		verifAssert(o != nil && verifOpsEq(o.ops, wantOps), "C20.replace.value/"+cls)
		if o != nil {
			verifAssert(o.hasTTL == hasExpire, "C20.replace.expiry-presence/"+cls)
			if hasExpire {
				// TTL handed to the target = ExpireAt - now, or 1 when already past
				want := uint64(1)
				if expireAt > verifNowMs {
					want = expireAt - verifNowMs
				}
				ws := strconv.FormatUint(want, 10)
				verifAssert(o.ttl == ws, "C20.replace.expiry-value/"+cls)
			}
		}
		verifReach("c20.replace")
		return
	}
	switch policy {
	case "ignore":
		verifAssert(err == nil, "C20.ignore.error/"+cls)
		verifAssert(!touched, "C20.ignore.key-modified/"+cls)
		verifAssert(o != nil && verifOpsEq(o.ops, []string{"rpush old"}) && o.hasTTL == preTTL, "C20.ignore.state-changed/"+cls)
		verifReach("c20.ignore")
	case "error":
		verifAssert(err != nil, "C20.error.no-error/"+cls)
		verifAssert(!touched, "C20.error.key-modified/"+cls)
		verifReach("c20.error")
	}
}

// VerifC03Handoff: which path is taken and what is handed to the target
// (RESTORE iff enabled, restorable, within the bulk limit and not split).
func VerifC03Handoff() {
	verifClockNs = verifNowMs * 1000000
	enable := verifBool("enable")
	canRestore := verifBool("canRestore")
	split := verifBool("split")
	size := verifInt("size")
	maxLen := verifInt("maxLen")
	verifAssume(verifAnd(verifAnd(size >= 0, size < 1<<40), verifAnd(maxLen >= 0, maxLen < 1<<40)))
	f := verifNewFake()
	rr := &RdbReplay{Client: f, RedisVersion: "7.0", EnableRestore: enable, MaxProtoBulkLen: maxLen, KeyExists: "replace"}
	p := &verifParser{key: []byte("k"), canRestore: canRestore, split: split, first: true, dumpSize: size, cmds: [][]string{{"rpush", "a"}}, dump: []byte("DUMP")}
	e := &rdb.BinEntry{DB: 0, Key: []byte("k"), Type: rdb.RdbTypeList, ObjectParser: p}
	err := rr.Replay(e)
	verifAssert(err == nil, "C03.handoff.error")
	usedRestore := false
	for _, r := range f.log {
		if r.cmd == "restore" {
			usedRestore = true
		}
	}
	want := verifAnd(verifAnd(enable, canRestore), verifAnd(!split, size <= maxLen))
	verifAssert(usedRestore == want, "C03.handoff.path")
	verifCover(usedRestore, "handoff.restore")
	verifCover(!usedRestore, "handoff.expand")
}


// VerifC03ChunkedExpiry: a hash with an expiry whose value the real Loader hands over in several
// chunks (threshold lowered to a few bytes), replayed by the real RdbReplay into fakeredis in which
// time passes between requests: afterwards the key holds every field and the snapshot's expiry, or -
// when that expiry is already past - it is gone or about to go at once; it never stays behind without
// an expiry.
func VerifC03ChunkedExpiry() {
	verifClockNs = verifNowMs * 1000000
	n := verifRange("n", 2, 3)
	exp := verifU64("expireAt")
	verifAssume(verifAnd(exp > 0, exp < 1<<50))
	body := []byte{rdb.RdbFlagExpiryMS}
	for i := 0; i < 8; i++ {
		body = append(body, byte(exp>>(8*uint(i))))
	}
	body = append(body, rdb.RdbTypeHash, 1, 'k', byte(n))
	for i := 0; i < n; i++ {
		body = append(body, 1, byte('a'+i), 1, byte('0'+i))
	}
	body = append(body, rdb.RdbFlagEOF)
	l, restore := rdb.VerifNewLoader(body, verifRange("threshold", 1, 4))
	defer restore()
	f := verifNewFake()
	f.timePasses = true
	rr := &RdbReplay{Client: f, RedisVersion: "7.0", EnableRestore: verifChoose("restore", 2) == 1, MaxProtoBulkLen: 1 << 20, KeyExists: "replace"}
	chunks := 0
	for {
		e, err := l.Next()
		verifAssert(err == nil, "C03.chunked-expiry.loader-error")
		if err != nil || e == nil {
			break
		}
		chunks++
		err = rr.Replay(e)
		verifAssert(err == nil, "C03.chunked-expiry.replay-error")
		if err != nil {
			return
		}
	}
	verifCover(chunks > 1, "chunked-expiry.split")
	h := f.st.hash(0, "k", false)
	past := exp <= verifNowMs+1 // (a time to live of 1 ms is "at once" as well: the key may be gone before the next chunk)
	if past {
		verifAssert(h == nil || (h.hasTTL && h.ttl == "1"), "C03.chunked-expiry.expired-key-stays-without-expiry")
		verifCover(chunks > 1, "chunked-expiry.past")
	} else {
		verifAssert(h != nil && h.hasTTL && h.ttl == strconv.FormatUint(exp-verifNowMs, 10), "C03.chunked-expiry.expiry")
		if h != nil {
			verifAssert(len(h.fields) == n, "C03.chunked-expiry.fields")
		}
	}
	verifReach("chunked-expiry.done")
}
