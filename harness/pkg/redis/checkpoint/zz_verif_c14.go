package checkpoint

// C14-H14a: RebuildBisyncFrontier against its specification: the rebuilt
// frontier is the end of the longest run of consecutive committed sequence
// numbers that starts right after the saved frontier (or at 1), never beyond a
// missing number and never below the saved frontier.

func VerifC14Rebuild() {
	n := verifRange("n", 0, verifParam("NREC", 3))
	haveSnap := verifChoose("snapshot", 2) == 1
	var snap *BisyncFrontierSnapshot
	start := int64(0)
	startOff := int64(0)
	if haveSnap {
		snap = &BisyncFrontierSnapshot{Version: "v", RunID: "r0"}
		snap.UnitSeq = verifI64("snapSeq")
		snap.Offset = verifI64("snapOff")
		verifAssume(verifAnd(snap.UnitSeq >= 0, snap.UnitSeq <= 4))
		verifAssume(verifAnd(snap.Offset >= 0, snap.Offset < 1<<40))
		start, startOff = snap.UnitSeq, snap.Offset
	}
	var recs []*BisyncCommitRecord
	for i := 0; i < n; i++ {
		r := &BisyncCommitRecord{RunID: "r1", Key: "k"}
		r.UnitSeq = verifI64("seq")
		r.EndOffset = verifI64("off")
		r.MTime = verifI64("mtime")
		verifAssume(verifAnd(r.UnitSeq >= -1, r.UnitSeq <= 8))
		verifAssume(verifAnd(r.EndOffset >= 0, r.EndOffset < 1<<40))
		verifAssume(verifAnd(r.MTime >= 0, r.MTime < 1<<40))
		recs = append(recs, r)
	}
	got, err := RebuildBisyncFrontier(snap, recs)

	// reference
	present := func(s int64) bool {
		p := false
		for _, r := range recs {
			p = verifOr(p, verifAnd(r.UnitSeq > 0, r.UnitSeq == s))
		}
		return p
	}
	minSeq := int64(0)
	for _, r := range recs {
		if verifAnd(r.UnitSeq > 0, verifOr(minSeq == 0, r.UnitSeq < minSeq)) {
			minSeq = r.UnitSeq
		}
	}
	if n == 0 {
		if !haveSnap {
			verifAssert(got == nil && err == nil, "C14.rebuild.empty")
		} else {
			verifAssert(err == nil && got != nil && got.UnitSeq == start && got.Offset == startOff, "C14.rebuild.keeps-snapshot")
		}
		return
	}
	if start == 0 && minSeq != 1 {
		// nothing proves that sequence 1.. were committed: a gap, reported as such
		verifAssert(err != nil && got == nil, "C14.rebuild.gap-not-reported")
		verifReach("rebuild.gap")
		return
	}
	verifAssert(err == nil && got != nil, "C14.rebuild.error")
	if err != nil || got == nil {
		return
	}
	want := start
	ok := true
	for j := int64(1); j <= int64(n); j++ {
		ok = verifAnd(ok, present(start+j))
		want = verifIte(ok, start+j, want)
	}
	verifObserve("seq", got.UnitSeq)
	verifAssert(got.UnitSeq == want, "C14.rebuild.frontier-seq")
	verifAssert(got.UnitSeq >= start, "C14.rebuild.below-snapshot")
	// the offset is that of the newest record carrying the frontier's sequence number
	if want == start {
		verifAssert(got.Offset == startOff, "C14.rebuild.offset-without-advance")
	} else {
		match := false
		for _, r := range recs {
			if r.UnitSeq == want {
				newest := true
				for _, q := range recs {
					if q.UnitSeq == want && q.MTime > r.MTime {
						newest = false
					}
				}
				if newest && r.EndOffset == got.Offset {
					match = true
				}
			}
		}
		verifAssert(match, "C14.rebuild.offset")
		verifReach("rebuild.advanced")
	}
}
