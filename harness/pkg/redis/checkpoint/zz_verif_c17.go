package checkpoint

// C17: checkpoint maintenance (re-keying on rename / failover, stale GC) never
// loses the live resume position, at any intermediate step.

import (
	"strconv"
	"time"

	"github.com/mgtv-tech/redis-GunYu/config"
)

func verifSeedCheckpoint(f *verifFake, db int, name, id string, off, mtime int64) {
	f.request("select", []interface{}{strconv.Itoa(db)})
	f.request("hset", []interface{}{name, id + "_runid", id, id + "_version", "v1", id + "_offset", strconv.FormatInt(off, 10), id + "_mtime", strconv.FormatInt(mtime, 10)})
	f.request("select", []interface{}{"0"})
}

type verifFound struct {
	ok  bool
	off int64
	db  int
}

// verifNextStart: what the next process start does before replaying:
// UpdateCheckpoint (complete this time), then GetCheckpoint under the local name.
func verifNextStart(log []verifReq, p int, local string, ids []string) verifFound {
	nf := verifStateAfter(log, p)
	if err := UpdateCheckpoint(nf, local, ids); err != nil {
		return verifFound{}
	}
	cpi, db, err := GetCheckpoint(nf, local, ids)
	if err != nil || cpi == nil || cpi.RunId == "?" {
		return verifFound{}
	}
	return verifFound{ok: true, off: cpi.Offset, db: db}
}

// VerifC17Update: renaming the checkpoint key and/or moving it to a new
// replication id, stopped after any number of its requests.
func VerifC17Update() {
	verifClockNs = 1700000000000000000
	f := verifNewFake()
	// every database holds data, so every database is scanned
	for db := 0; db <= 2; db++ {
		f.request("select", []interface{}{strconv.Itoa(db)})
		f.request("set", []interface{}{"data", "x"})
	}
	f.request("select", []interface{}{"0"})
	oldName, oldId := "redis-gunyu-checkpoint-old", "idOld"
	liveDb := verifChoose("liveDb", 3)
	liveOff := verifI64("liveOff")
	verifAssume(verifAnd(liveOff >= 1, liveOff < 1<<40))
	verifSeedCheckpoint(f, liveDb, oldName, oldId, liveOff, 50)
	if verifChoose("staleCopy", 2) == 1 {
		// an older copy left behind in another database
		sdb := (liveDb + 1 + verifChoose("staleDb", 2)) % 3
		soff := verifI64("staleOff")
		verifAssume(verifAnd(soff >= 0, soff < liveOff))
		verifSeedCheckpoint(f, sdb, oldName, oldId, soff, 40)
	}
	f.request("hset", []interface{}{config.CheckpointKeyHashKey, oldId, oldName})

	newName, newId := oldName, oldId
	switch verifChoose("op", 3) {
	case 0:
		newName = "redis-gunyu-checkpoint-new" // topology change renames the key
	case 1:
		newId = "idNew" // failover: new replication id, previous id still reported
	default:
		newName, newId = "redis-gunyu-checkpoint-new", "idNew"
	}
	ids := []string{newId, oldId}
	if newId == oldId {
		ids = []string{oldId, "0000000000000000000000000000000000000000"}
	}
	nSeed := len(f.log)
	err := UpdateCheckpoint(f, newName, ids)
	verifAssert(err == nil, "C17.update.error")
	log := f.log
	verifObserve("reqs", int64(len(log)-nSeed))
	for p := nSeed; p <= len(log); p++ {
		got := verifNextStart(log, p, newName, ids)
		verifAssert(got.ok, "C17.update.position-lost")
		if got.ok {
			verifAssert(got.off >= liveOff, "C17.update.position-smaller")
			verifAssert(got.db == liveDb, "C17.update.position-in-other-database")
		}
	}
	verifReach("c17.update")
}

// VerifC17SharedKey: the shards of one source share a checkpoint key (one hash, the fields of
// several replication ids). Re-keying the position of shard A (rename, failover, both), stopped after
// any number of its requests, leaves the position of shard B where it was: B's next start finds its
// offset in its database.
func VerifC17SharedKey() {
	verifClockNs = 1700000000000000000
	f := verifNewFake()
	for db := 0; db <= 2; db++ {
		f.request("select", []interface{}{strconv.Itoa(db)})
		f.request("set", []interface{}{"data", "x"})
	}
	f.request("select", []interface{}{"0"})
	oldName, idA, idB := "redis-gunyu-checkpoint-old", "idA", "idB"
	dbA := verifChoose("dbA", 3)
	dbB := verifChoose("dbB", 3)
	offA, offB := verifI64("offA"), verifI64("offB")
	verifAssume(verifAnd(verifAnd(offA >= 1, offA < 1<<40), verifAnd(offB >= 1, offB < 1<<40)))
	verifSeedCheckpoint(f, dbA, oldName, idA, offA, 50)
	verifSeedCheckpoint(f, dbB, oldName, idB, offB, 60)
	f.request("hset", []interface{}{config.CheckpointKeyHashKey, idA, oldName})
	f.request("hset", []interface{}{config.CheckpointKeyHashKey, idB, oldName})
	newName, newId := oldName, idA
	switch verifChoose("op", 3) {
	case 0:
		newName = "redis-gunyu-checkpoint-new"
	case 1:
		newId = "idA2"
	default:
		newName, newId = "redis-gunyu-checkpoint-new", "idA2"
	}
	ids := []string{newId, idA}
	if newId == idA {
		ids = []string{idA, "0000000000000000000000000000000000000000"}
	}
	idsB := []string{idB, "0000000000000000000000000000000000000000"}
	nSeed := len(f.log)
	err := UpdateCheckpoint(f, newName, ids)
	verifAssert(err == nil, "C17.shared.error")
	log := f.log
	for p := nSeed; p <= len(log); p++ {
		// shard B restarts under the name it has always used
		got := verifNextStart(log, p, oldName, idsB)
		verifAssert(got.ok, "C17.shared.other-shard-position-lost")
		if got.ok {
			verifAssert(got.off == offB && got.db == dbB, "C17.shared.other-shard-position-changed")
		}
		// and shard A's own position is still found (as in VerifC17Update)
		own := verifNextStart(log, p, newName, ids)
		verifAssert(own.ok && own.off >= offA && own.db == dbA, "C17.update.position-lost")
	}
	verifCover(dbA == dbB, "c17.shared.same-db")
	verifReach("c17.shared")
}

// VerifC17StaleGC: garbage collection of stale checkpoints.
func VerifC17StaleGC() {
	now := int64(1700000000) * int64(time.Second)
	verifClockNs = now
	f := verifNewFake()
	for db := 0; db <= 2; db++ {
		f.request("select", []interface{}{strconv.Itoa(db)})
		f.request("set", []interface{}{"data", "x"})
	}
	f.request("select", []interface{}{"0"})
	name, id := "redis-gunyu-checkpoint", "idLive"
	n := verifRange("copies", 1, 3)
	var offs, mts [3]int64
	best := -1
	for db := 0; db < n; db++ {
		offs[db] = verifI64("off")
		mts[db] = verifI64("mtime")
		verifAssume(verifAnd(offs[db] >= 1, offs[db] < 1<<40))
		verifAssume(verifAnd(mts[db] >= 0, mts[db] <= now))
		// distinct offsets: which copy is "the newest" is unambiguous
		for j := 0; j < db; j++ {
			verifAssume(offs[db] != offs[j])
		}
		verifSeedCheckpoint(f, db, name, id, offs[db], mts[db])
		if best < 0 || offs[db] > offs[best] {
			best = db
		}
	}
	stale := 12 * time.Hour
	reported := verifChoose("sourceStillReportsId", 2) == 1
	before, db0, err := GetCheckpoint(f, name, []string{id})
	verifAssert(err == nil && before.RunId == id && db0 == best, "C17.gc.setup")
	nSeed := len(f.log)
	_, _, err = DelStaleCheckpoint(f, name, id, stale, reported)
	verifAssert(err == nil, "C17.gc.error")
	log := f.log
	for p := nSeed; p <= len(log); p++ {
		nf := verifStateAfter(log, p)
		cpi, db, err := GetCheckpoint(nf, name, []string{id})
		verifAssert(err == nil, "C17.gc.read-error")
		if reported {
			verifAssert(cpi.RunId == id && cpi.Offset == offs[best] && db == best, "C17.gc.removed-newest-of-reported-id")
		}
		// a copy that was refreshed within the staleness window is never collected
		for d := 0; d < n; d++ {
			if mts[d] > now-int64(stale) {
				h := nf.st.hash(d, name, false)
				_, has := "", false
				if h != nil {
					_, has = h.get(id + "_offset")
				}
				verifAssert(has, "C17.gc.removed-fresh-checkpoint")
			}
		}
	}
	verifReach("c17.gc")
}
