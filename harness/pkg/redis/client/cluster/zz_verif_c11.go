package cluster

import "github.com/mgtv-tech/redis-GunYu/pkg/digest"

// Reference (DESIGN.md D1, cluster spec keyHashSlot): the bytes that are hashed.
func verifRefTag(key string) string {
	s := -1
	for i := 0; i < len(key); i++ {
		if key[i] == '{' {
			s = i
			break
		}
	}
	if s < 0 {
		return key
	}
	e := -1
	for i := s + 1; i < len(key); i++ {
		if key[i] == '}' {
			e = i
			break
		}
	}
	if e < 0 || e == s+1 {
		return key
	}
	return key[s+1 : e]
}

var (
	verifCrcInput string
	verifCrcCalls int
)

func verifCrc16Stub(buf string) uint16 {
	verifCrcInput = buf
	verifCrcCalls++
	return verifU16("crcout")
}

// VerifC11ClusterHashTag: the cluster client's own slot function hashes exactly
// the bytes HASH_SLOT designates, for every key of length <= N.
func VerifC11ClusterHashTag() {
	n := verifRange("len", 0, verifParam("N", 6))
	key := verifStr("key", n)
	ref := verifRefTag(key)
	if verifSymbolic() {
		verifCrcCalls = 0
		slot := hash(key)
		verifAssert(verifCrcCalls == 1, "C11.cluster.hash.crc-once")
		verifAssert(verifCrcInput == ref, "C11.cluster.hash.tag")
		verifCover(len(ref) < len(key), "tag.used")
		verifAssert(slot < 16384, "C11.cluster.hash.range")
		return
	}
	verifObserve("slot", int64(hash(key)))
	verifAssert(hash(key) == digest.Crc16(ref)&0x3fff, "C11.cluster.hash.tag")
}
