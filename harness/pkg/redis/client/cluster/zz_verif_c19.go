package redis

// C19 (client-side logic): routing by slot table, batch bookkeeping across nodes,
// transaction retry on MOVED/ASK. The network (redisConn, node pipelines) is
// replaced by harness stubs; every stub is named in the spec.

import (
	"errors"
	"fmt"

	"github.com/mgtv-tech/redis-GunYu/pkg/redis/client/common"
)

// verifNewCluster: 3 nodes owning [0,b1), [b1,b2), [b2,16384).
func verifNewCluster(b1, b2 int) (*Cluster, []*redisNode) {
	c := &Cluster{nodes: map[string]*redisNode{}}
	var ns []*redisNode
	for i := 0; i < 3; i++ {
		n := &redisNode{address: fmt.Sprintf("n%d:6379", i)}
		c.nodes[n.address] = n
		ns = append(ns, n)
	}
	for s := 0; s < kClusterSlots; s++ {
		switch {
		case s < b1:
			c.slots[s] = ns[0]
		case s < b2:
			c.slots[s] = ns[1]
		default:
			c.slots[s] = ns[2]
		}
	}
	return c, ns
}

func verifKey(name string) string {
	sym := func() byte {
		b := verifU8(name)
		verifAssume(verifAnd(b < 0x80, verifAnd(b != '{', b != '}')))
		return b
	}
	switch verifChoose(name+".layout", 3) {
	case 0:
		return string([]byte{sym(), sym()})
	case 1:
		return string([]byte{sym(), '{', sym(), '}', sym()})
	default:
		return string([]byte{'{', '}', sym()})
	}
}

func verifOwnerIdx(slot uint16, b1, b2 int) int {
	if int(slot) < b1 {
		return 0
	}
	if int(slot) < b2 {
		return 1
	}
	return 2
}

// VerifC19Routing: a command is routed to the node owning the reference slot of
// its key; a multi-key command whose keys live on different nodes is refused.
func VerifC19Routing() {
	b1, b2 := 5461, 10923
	c, ns := verifNewCluster(b1, b2)
	k1 := verifKey("k1")
	s1 := hash(k1) // equality of hash with HASH_SLOT is decided in C11
	node, err := c.ChooseNodeWithCmd("set", []byte(k1), []byte("v"))
	verifAssert(err == nil && node != nil, "C19.routing.error")
	if err == nil && node != nil {
		verifAssert(node == ns[verifOwnerIdx(s1, b1, b2)], "C19.routing.wrong-node")
	}
	k2 := verifKey("k2")
	s2 := hash(k2)
	node2, err2 := c.ChooseNodeWithCmd("rename", []byte(k1), []byte(k2))
	sameNode := verifOwnerIdx(s1, b1, b2) == verifOwnerIdx(s2, b1, b2)
	if sameNode {
		verifAssert(err2 == nil && node2 == ns[verifOwnerIdx(s1, b1, b2)], "C19.routing.same-node-refused")
	} else {
		verifAssert(err2 != nil && errors.Is(err2, common.ErrCrossSlots), "C19.routing.cross-node-accepted")
	}
	verifCover(!sameNode, "routing.cross-node")
	verifReach("routing.done")
}

// ---- batch bookkeeping ----

var verifBatchFailNode int // index of the node whose sub-batch fails, -1 = none
var verifBatchNodes []*redisNode

// verifDoBatch replaces (*Batch).doBatch: every command is "executed" by its node
// and answered with node-address/ordinal; optionally one node fails.
func verifDoBatch(bat *Batch, batch *nodeBatch) {
	for i, n := range verifBatchNodes {
		if n == batch.node && i == verifBatchFailNode {
			batch.err = errors.New("fake: connection reset")
			batch.done <- 1
			return
		}
	}
	for i := range batch.cmds {
		batch.cmds[i].reply = batch.node.address + "/" + verifArg0(batch.cmds[i].args)
	}
	batch.done <- 1
}

func verifArg0(args []interface{}) string {
	if len(args) == 0 {
		return ""
	}
	if b, ok := args[0].([]byte); ok {
		return string(b)
	}
	return ""
}

// VerifC19Batch: replies come back in put order, each produced by the node that
// owns the command's key; within a node the commands keep their put order; a
// failing node fails the whole batch.
func VerifC19Batch() {
	c, ns := verifNewCluster(5461, 10923)
	verifBatchNodes = ns
	n := verifRange("ncmds", 1, verifParam("NB", 4))
	verifBatchFailNode = verifChoose("failNode", 4) - 1
	// concrete keys known to live on each node (slots 12182->n2? computed below)
	keys := []string{"a", "b", "c", "d", "e", "f"}
	bat := c.NewBatch()
	var want []string
	var owners []int
	// optionally one command of the batch names keys of two different nodes: it cannot be routed; the
	// caller (the sender ignores Put's return value) must hear about it from Exec
	unroutableAt := verifChoose("unroutableAt", n+1) - 1
	for i := 0; i < n; i++ {
		k := keys[verifChoose("key", len(keys))] + fmt.Sprint(i)
		o := verifOwnerIdx(hash(k), 5461, 10923)
		if i == unroutableAt {
			k2 := ""
			for _, c2 := range keys {
				if verifOwnerIdx(hash(c2+fmt.Sprint(i)), 5461, 10923) != o {
					k2 = c2 + fmt.Sprint(i)
					break
				}
			}
			verifAssume(k2 != "")
			_ = bat.Put("rename", []byte(k), []byte(k2))
			continue
		}
		verifAssert(bat.Put("set", []byte(k), []byte("v")) == nil, "C19.batch.put-error")
		owners = append(owners, o)
		want = append(want, ns[o].address+"/"+k)
	}
	replies, err := bat.Exec()
	failed := false
	for _, o := range owners {
		if o == verifBatchFailNode {
			failed = true
		}
	}
	if unroutableAt >= 0 {
		verifAssert(err != nil, "C19.batch.unroutable-command-silently-dropped")
		verifCover(true, "batch.unroutable")
		return
	}
	if failed {
		verifAssert(err != nil, "C19.batch.node-failure-swallowed")
		return
	}
	verifAssert(err == nil && len(replies) == len(want), "C19.batch.error")
	for i := 0; i < len(want) && i < len(replies); i++ {
		verifAssert(replies[i] == want[i], "C19.batch.reply-order-or-owner")
	}
	verifReach("batch.done")
}

// ---- transaction redirects ----

type verifAttempt struct {
	node   *redisNode
	asking bool
}

var verifAttempts []verifAttempt
var verifScript []int // per attempt: 0 ok, 1 MOVED n1, 2 ASK n2, 3 error
var verifTB *txnBatcher

// verifDispatchToNode replaces (*txnBatcher).dispatchToNode: records where and how the attempt is sent.
func verifDispatchToNode(tb *txnBatcher) error {
	verifAttempts = append(verifAttempts, verifAttempt{tb.node, tb.asking})
	tb.request = &nodePipelineRequest{}
	return nil
}

// verifWait replaces (*nodePipelineRequest).Wait: the scripted outcome of the attempt.
func verifWait(r *nodePipelineRequest) ([]interface{}, error) {
	i := len(verifAttempts) - 1
	out := 3
	if i < len(verifScript) {
		out = verifScript[i]
	}
	switch out {
	case 0:
		n := len(verifTB.cmds)
		rep := []interface{}{"OK"}
		inner := []interface{}{}
		for j := 0; j < n; j++ {
			rep = append(rep, "QUEUED")
			inner = append(inner, "OK")
		}
		return append(rep, inner), nil
	case 1:
		return nil, common.RedisError("MOVED 100 n1:6379")
	case 2:
		return nil, common.RedisError("ASK 100 n2:6379")
	}
	return nil, errors.New("fake: i/o timeout")
}

// VerifC19TxnRedirect: success is reported only after one complete attempt at the
// node the last redirect indicated (ASKING iff that redirect was ASK), at most 6
// attempts are made, anything else is an error - never a silent loss.
func VerifC19TxnRedirect() {
	c, ns := verifNewCluster(5461, 10923)
	tb := &txnBatcher{cluster: c}
	verifTB = tb
	verifAttempts = nil
	verifAssert(tb.Put("set", []byte("a"), []byte("v")) == nil, "C19.txn.put")
	start := tb.node
	nsteps := verifRange("steps", 1, verifParam("STEPS", 4))
	verifScript = nil
	for i := 0; i < nsteps; i++ {
		verifScript = append(verifScript, verifChoose("outcome", 4))
	}
	replies, err := tb.Receive()
	// reference walk
	node, asking := start, false
	ok := false
	var failed bool
	used := 0
	for i := 0; i < 6; i++ {
		out := 3
		if i < len(verifScript) {
			out = verifScript[i]
		}
		used++
		if i >= len(verifAttempts) {
			break
		}
		verifAssert(verifAttempts[i].node == node && verifAttempts[i].asking == asking, "C19.txn.retried-at-wrong-node-or-asking")
		switch out {
		case 0:
			ok = true
		case 1:
			node, asking = ns[1], false
		case 2:
			node, asking = ns[2], true
		default:
			failed = true
		}
		if ok || failed {
			break
		}
	}
	if ok {
		verifAssert(err == nil && len(replies) == 3, "C19.txn.success-not-reported")
		verifAssert(len(verifAttempts) == used, "C19.txn.extra-attempts")
	} else {
		verifAssert(err != nil, "C19.txn.silent-loss")
		verifAssert(len(verifAttempts) <= 6, "C19.txn.too-many-attempts")
	}
	verifCover(ok && used > 1, "txn.redirected-then-ok")
	verifReach("txn.done")
}
