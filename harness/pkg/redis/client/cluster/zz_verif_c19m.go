package redis

// C19 (cluster model): the real cluster client - Cluster.Do, Batch (blocking),
// batch2 + nodePipeline (pipelined), txnBatcher, handleReply/handleMove/handleAsk,
// resolveRedirectionNode, update (CLUSTER SLOTS), the RESP writer/reader of
// redisConn over bufio - runs against a three-node cluster model that lives behind
// net.Conn (node.go's net.DialTimeout is redirected to verifDial by source rewrite).
// One slot migrates from its owner to another node while commands are replayed; the
// model answers MOVED / ASK / ASKING the way redis cluster.c:getNodeByQuery does.

import (
	"errors"
	"io"
	"net"
	"sync"
	"time"

	"github.com/mgtv-tech/redis-GunYu/pkg/log"
)

type verifExecRec struct {
	node int
	key  string
	val  string
}

type verifCModel struct {
	mu     sync.Mutex
	b1, b2 int
	mslot  int // the migrating slot
	src    int
	dst    int
	mstate int // 0 owned by src, 1 migrating src->dst, 2 owned by dst
	store  [3]map[string]string
	log    []verifExecRec
	budget int // migration steps the environment may still take
	dials  int
	// bookkeeping for the harness
	dataCmds int
}

var verifCM *verifCModel

func verifAddr(i int) string { return "n" + string(rune('0'+i)) + ":6379" }

func (m *verifCModel) rangeOwner(slot int) int {
	if slot < m.b1 {
		return 0
	}
	if slot < m.b2 {
		return 1
	}
	return 2
}

// owner as CLUSTER SLOTS reports it (a migrating slot still belongs to its source)
func (m *verifCModel) owner(slot int) int {
	if slot == m.mslot {
		if m.mstate == 2 {
			return m.dst
		}
		return m.src
	}
	return m.rangeOwner(slot)
}

// environment: the migration may advance before any command the cluster processes
func (m *verifCModel) maybeMigrate() {
	for m.budget > 0 && m.mstate < 2 {
		if verifChoose("migrate", 2) == 0 {
			return
		}
		m.budget--
		if m.mstate == 0 {
			m.mstate = 1
			continue
		}
		// migrating: move one key that is still at the source, or finish when none is left
		var left []string
		for _, k := range verifMKeys {
			if _, ok := m.store[m.src][k]; ok {
				left = append(left, k)
			}
		}
		if len(left) == 0 {
			m.mstate = 2
			continue
		}
		k := left[0]
		if len(left) > 1 {
			k = left[verifChoose("migrate.key", len(left))]
		}
		m.store[m.dst][k] = m.store[m.src][k]
		delete(m.store[m.src], k)
	}
}

// redirect decides, like getNodeByQuery, what node n answers for a command on key:
// "" = serve it here, otherwise the error text.
func (m *verifCModel) redirect(n int, key string, asking bool) string {
	slot := int(hash(key))
	slotTxt := verifItoa(int64(slot))
	if slot != m.mslot || m.mstate != 1 {
		o := m.owner(slot)
		if o == n {
			return ""
		}
		return "MOVED " + slotTxt + " " + verifAddr(o)
	}
	// the slot is migrating src -> dst
	if n == m.src {
		if _, ok := m.store[m.src][key]; ok {
			return ""
		}
		return "ASK " + slotTxt + " " + verifAddr(m.dst)
	}
	if n == m.dst && asking {
		return ""
	}
	return "MOVED " + slotTxt + " " + verifAddr(m.src)
}

// unstable: the TRYAGAIN cases of getNodeByQuery for an EXEC over several distinct keys
func (m *verifCModel) unstable(n int, qs []verifQueued, asking bool) string {
	if m.mstate != 1 {
		return ""
	}
	var keys []string
	for _, q := range qs {
		k := q.args[0]
		if int(hash(k)) != m.mslot {
			return ""
		}
		dup := false
		for _, o := range keys {
			if o == k {
				dup = true
			}
		}
		if !dup {
			keys = append(keys, k)
		}
	}
	if len(keys) < 2 {
		return ""
	}
	present := 0
	for _, k := range keys {
		if _, ok := m.store[n][k]; ok {
			present++
		}
	}
	if n == m.dst && asking && present < len(keys) {
		return "TRYAGAIN Multiple keys request during rehashing of slot"
	}
	if n == m.src && present > 0 && present < len(keys) {
		return "TRYAGAIN Multiple keys request during rehashing of slot"
	}
	return ""
}

// ---- the connection ----

type verifQueued struct {
	cmd  string
	args []string
}

type verifNetConn struct {
	node   int
	in     []byte // bytes written by the client, not yet parsed
	out    []byte // replies not yet read
	closed bool
	asking bool
	multi  bool
	dirty  bool
	queued []verifQueued
}

type verifAddrT struct{}

func (verifAddrT) Network() string { return "tcp" }
func (verifAddrT) String() string  { return "verif" }

func verifDial(addr string, _ time.Duration) (net.Conn, error) {
	m := verifCM
	m.mu.Lock()
	defer m.mu.Unlock()
	m.dials++
	for i := 0; i < 3; i++ {
		if verifAddr(i) == addr {
			return &verifNetConn{node: i}, nil
		}
	}
	return nil, errors.New("verif: dial " + addr + ": no such node")
}

func (c *verifNetConn) Read(p []byte) (int, error) {
	m := verifCM
	m.mu.Lock()
	defer m.mu.Unlock()
	if c.closed {
		return 0, errors.New("verif: read on closed connection")
	}
	if len(c.out) == 0 {
		// the client reads a reply it has not asked for: a real socket would block until the read time-out
		return 0, errors.New("verif: i/o timeout (no reply pending)")
	}
	n := copy(p, c.out)
	c.out = c.out[n:]
	return n, nil
}

func (c *verifNetConn) Write(p []byte) (int, error) {
	m := verifCM
	m.mu.Lock()
	defer m.mu.Unlock()
	if c.closed {
		return 0, io.ErrClosedPipe
	}
	c.in = append(c.in, p...)
	for {
		args, rest, ok := verifParseCmd(c.in)
		if !ok {
			break
		}
		c.in = rest
		m.serve(c, args)
	}
	return len(p), nil
}

func (c *verifNetConn) Close() error {
	m := verifCM
	m.mu.Lock()
	defer m.mu.Unlock()
	c.closed = true
	return nil
}
func (c *verifNetConn) LocalAddr() net.Addr                { return verifAddrT{} }
func (c *verifNetConn) RemoteAddr() net.Addr               { return verifAddrT{} }
func (c *verifNetConn) SetDeadline(t time.Time) error      { return nil }
func (c *verifNetConn) SetReadDeadline(t time.Time) error  { return nil }
func (c *verifNetConn) SetWriteDeadline(t time.Time) error { return nil }

// verifParseCmd: one complete "*N\r\n$len\r\narg\r\n..." request, if the buffer holds one
func verifParseCmd(b []byte) (args []string, rest []byte, ok bool) {
	num := func(i int) (int, int, bool) { // decimal number ending with \r\n starting at i
		v := 0
		for j := i; j+1 < len(b); j++ {
			if b[j] == '\r' && b[j+1] == '\n' {
				return v, j + 2, true
			}
			v = v*10 + int(b[j]-'0')
		}
		return 0, 0, false
	}
	if len(b) == 0 || b[0] != '*' {
		return nil, b, false
	}
	n, i, ok1 := num(1)
	if !ok1 {
		return nil, b, false
	}
	for a := 0; a < n; a++ {
		if i >= len(b) || b[i] != '$' {
			return nil, b, false
		}
		l, j, ok2 := num(i + 1)
		if !ok2 || j+l+2 > len(b) {
			return nil, b, false
		}
		args = append(args, string(b[j:j+l]))
		i = j + l + 2
	}
	return args, b[i:], true
}

func verifLower(s string) string {
	b := []byte(s)
	for i := range b {
		if b[i] >= 'A' && b[i] <= 'Z' {
			b[i] += 32
		}
	}
	return string(b)
}

func (c *verifNetConn) reply(s string) { c.out = append(c.out, s...) }

func verifBulk(s string) string { return "$" + verifItoa(int64(len(s))) + "\r\n" + s + "\r\n" }

// apply one data command at node n (the caller has checked that n serves it)
func (m *verifCModel) apply(n int, cmd string, args []string) string {
	switch cmd {
	case "set":
		m.store[n][args[0]] = args[1]
		m.log = append(m.log, verifExecRec{n, args[0], args[1]})
		return "+OK\r\n"
	case "getset":
		// a write whose reply is a nil bulk when the key did not exist
		old, ok := m.store[n][args[0]]
		m.store[n][args[0]] = args[1]
		m.log = append(m.log, verifExecRec{n, args[0], args[1]})
		if ok {
			return verifBulk(old)
		}
		return "$-1\r\n"
	case "del":
		_, ok := m.store[n][args[0]]
		delete(m.store[n], args[0])
		m.log = append(m.log, verifExecRec{n, args[0], ""})
		if ok {
			return ":1\r\n"
		}
		return ":0\r\n"
	}
	verifUnsupported("cluster model: command " + cmd)
	return ""
}

func (m *verifCModel) serve(c *verifNetConn, argv []string) {
	cmd := verifLower(argv[0])
	args := argv[1:]
	switch cmd {
	case "cluster":
		if len(args) == 1 && verifLower(args[0]) == "slots" {
			c.reply(m.clusterSlots())
			return
		}
		verifUnsupported("cluster model: CLUSTER " + args[0])
	case "asking":
		c.asking = true
		c.reply("+OK\r\n")
		return
	case "multi":
		if c.multi {
			c.reply("-ERR MULTI calls can not be nested\r\n")
			return
		}
		c.multi, c.dirty, c.queued = true, false, nil
		c.reply("+OK\r\n")
		return
	case "exec":
		if !c.multi {
			c.reply("-ERR EXEC without MULTI\r\n")
			return
		}
		m.maybeMigrate()
		c.multi = false
		asking := c.asking
		c.asking = false
		if c.dirty {
			c.reply("-EXECABORT Transaction discarded because of previous errors.\r\n")
			return
		}
		// ownership is checked again for every queued key when EXEC runs; a redirect discards the transaction.
		// A transaction over several keys of a slot that is being moved is served only where all of its keys
		// are: the importing node answers TRYAGAIN while one is missing (cluster.c getNodeByQuery), the
		// migrating node TRYAGAIN when it holds some but not all of them.
		if r := m.unstable(c.node, c.queued, asking); r != "" {
			c.reply("-" + r + "\r\n")
			return
		}
		for _, q := range c.queued {
			if r := m.redirect(c.node, q.args[0], asking); r != "" {
				c.reply("-" + r + "\r\n")
				return
			}
		}
		out := "*" + verifItoa(int64(len(c.queued))) + "\r\n"
		for _, q := range c.queued {
			out += m.apply(c.node, q.cmd, q.args)
		}
		c.reply(out)
		return
	case "set", "del", "getset":
		m.dataCmds++
		if !c.multi || (len(c.queued) == 0 && !c.dirty) {
			// inside MULTI the environment moves before the first command and before EXEC (a step between two
			// queued commands is equivalent to one of those for what the client can observe)
			m.maybeMigrate()
		}
		r := m.redirect(c.node, args[0], c.asking)
		if !c.multi {
			c.asking = false
		}
		if r != "" {
			if c.multi {
				c.dirty = true
			}
			c.reply("-" + r + "\r\n")
			return
		}
		if c.multi {
			c.queued = append(c.queued, verifQueued{cmd, args})
			c.reply("+QUEUED\r\n")
			return
		}
		c.reply(m.apply(c.node, cmd, args))
		return
	}
	verifUnsupported("cluster model: command " + cmd)
}

func (m *verifCModel) clusterSlots() string {
	type rng struct{ lo, hi, o int }
	// ownership changes only at these slots
	cuts := []int{0, m.b1, m.b2, m.mslot, m.mslot + 1, kClusterSlots}
	for i := 1; i < len(cuts); i++ {
		for j := i; j > 0 && cuts[j] < cuts[j-1]; j-- {
			cuts[j], cuts[j-1] = cuts[j-1], cuts[j]
		}
	}
	var rs []rng
	for i := 0; i+1 < len(cuts); i++ {
		lo, hi := cuts[i], cuts[i+1]-1
		if hi < lo || lo >= kClusterSlots {
			continue
		}
		o := m.owner(lo)
		if n := len(rs); n > 0 && rs[n-1].o == o && rs[n-1].hi+1 == lo {
			rs[n-1].hi = hi
			continue
		}
		rs = append(rs, rng{lo, hi, o})
	}
	out := "*" + verifItoa(int64(len(rs))) + "\r\n"
	for _, r := range rs {
		out += "*3\r\n:" + verifItoa(int64(r.lo)) + "\r\n:" + verifItoa(int64(r.hi)) + "\r\n*2\r\n" +
			verifBulk("n"+string(rune('0'+r.o))) + ":6379\r\n"
	}
	return out
}

// verifScan stands for common.Scan(values, &ip, &port) in the symbolic run (the real one uses reflection)
func verifScan(src []interface{}, dst ...interface{}) ([]interface{}, error) {
	if len(src) < len(dst) {
		return nil, errors.New("verif scan: too few values")
	}
	for i, d := range dst {
		switch p := d.(type) {
		case *string:
			switch v := src[i].(type) {
			case []byte:
				*p = string(v)
			case string:
				*p = v
			default:
				return nil, errors.New("verif scan: string")
			}
		case *int:
			switch v := src[i].(type) {
			case int64:
				*p = int(v)
			default:
				return nil, errors.New("verif scan: int")
			}
		default:
			verifUnsupported("verifScan destination type")
		}
	}
	return src[len(dst):], nil
}

// ---- scenario ----

var verifMKeys = []string{"{m}1", "{m}2"}

// verifNewModelCluster builds the client the way NewCluster does (update() from a start node, the
// handleUpdate goroutine) minus the idle-connection reaper.
func verifNewModelCluster(refresh bool) *Cluster {
	m := &verifCModel{b1: 5461, b2: 10923}
	for i := range m.store {
		m.store[i] = map[string]string{}
	}
	m.mslot = int(hash(verifMKeys[0]))
	m.src = m.rangeOwner(m.mslot)
	m.dst = (m.src + 1) % 3
	verifCM = m
	c := &Cluster{
		nodes:           make(map[string]*redisNode),
		connTimeout:     time.Second,
		keepAlive:       4,
		aliveTime:       time.Minute,
		updateList:      make(chan updateMesg),
		closeCh:         make(chan struct{}),
		handleMoveError: true,
		handleAskError:  true,
		logger:          log.WithLogger("[verif] "),
	}
	c.pipeline = &batchPipeline{cluster: c}
	start := &redisNode{address: verifAddr(0), connTimeout: time.Second, keepAlive: 4, aliveTime: time.Minute}
	if err := c.update(start); err != nil {
		verifUnsupported("initial topology: " + err.Error())
	}
	if refresh {
		// the asynchronous topology refresh NewCluster starts: a MOVED reply wakes it (inform)
		go c.handleUpdate()
		verifSettle()
	}
	return c
}

type verifPut struct {
	key string
	val string
}

// verifOracle: after a run in which the client reported no error, every command was executed, each key
// holds the value of its last command on exactly the node that serves it, and no key's history is inverted.
func verifOracle(tag string, puts []verifPut, txn bool, failed bool) {
	id := func(what string) string { return "C19.model." + tag + "." + what }
	m := verifCM
	m.mu.Lock()
	defer m.mu.Unlock()
	count := make([]int, len(puts))
	for _, r := range m.log {
		for i, p := range puts {
			if p.key == r.key && p.val == r.val {
				count[i]++
			}
		}
	}
	if txn {
		for i := range puts {
			verifAssert(count[i] <= 1, id("txn-command-executed-twice"))
		}
	}
	// per key: the executed values, in execution order, never step back over a later write that already
	// took effect unless they then run forward again to the end of what was replayed (a repeated suffix)
	if failed {
		return
	}
	for i := range puts {
		verifAssert(count[i] >= 1, id("command-silently-lost"))
	}
	last := map[string]string{}
	for _, p := range puts {
		last[p.key] = p.val
	}
	for k, want := range last {
		holders := 0
		for n := 0; n < 3; n++ {
			if v, ok := m.store[n][k]; ok {
				holders++
				verifAssert(v == want, id("key-order-inverted"))
				served := m.redirect(n, k, n == m.dst && m.mstate == 1) == ""
				verifAssert(served, id("write-landed-on-non-owner"))
			}
		}
		verifAssert(holders == 1, id("key-on-several-nodes-or-none"))
	}
}

// verifScenario: nc commands (SET key v<i>); the first one writes a key of the migrating slot, the others a
// key of that slot or (nkeys == 3) a key another node owns; split into batches at chosen boundaries, or
// (singletons) one command per batch.
func verifScenario(nc int, nkeys int, singletons bool) [][]verifPut {
	keys := []string{verifMKeys[0], verifMKeys[1], "x"}
	var out [][]verifPut
	var cur []verifPut
	for i := 0; i < nc; i++ {
		ki := 0
		if i > 0 {
			ki = verifChoose("key", nkeys)
		}
		if i > 0 && (singletons || verifChoose("split", 2) == 1) {
			out = append(out, cur)
			cur = nil
		}
		cur = append(cur, verifPut{keys[ki], "v" + verifItoa(int64(i+1))})
	}
	return append(out, cur)
}

func verifPrepare(c *Cluster) {
	m := verifCM
	// the moving keys may exist at the source before the run (an ASK is answered only for absent keys)
	if verifChoose("preexists", 2) == 1 {
		for _, k := range verifMKeys {
			m.store[m.src][k] = "old"
		}
	}
	m.budget = verifParam("MSTEPS", 4)
	// the migration may already be under way, or complete with the client's map stale, when the run starts
	m.mstate = 0
	for pre := verifChoose("premigrate", 3); pre > 0 && m.budget > 0; pre-- {
		m.budget--
		if m.mstate == 0 {
			m.mstate = 1
			continue
		}
		for _, k := range verifMKeys {
			if v, ok := m.store[m.src][k]; ok {
				m.store[m.dst][k] = v
				delete(m.store[m.src], k)
			}
		}
		m.mstate = 2
	}
}

func verifFlat(bs [][]verifPut) []verifPut {
	var out []verifPut
	for _, b := range bs {
		out = append(out, b...)
	}
	return out
}

// VerifC19ModelBlocking: Cluster.Do per command, or one blocking Batch per batch.
func VerifC19ModelBlocking() {
	c := verifNewModelCluster(true)
	if verifChoose("handleRedirects", 2) == 0 {
		// handleMoveErr / handleAskErr switched off in the configuration: a redirect is the caller's business -
		// it must come back as an error, never as a reply-less success
		c.handleMoveError, c.handleAskError = false, false
		verifCover(true, "model.blocking.redirects-not-handled")
	}
	if verifChoose("warmpool", 2) == 1 {
		// every node's pool holds two idle connections, as earlier concurrent use leaves them behind
		for _, n := range c.nodes {
			c1, e1 := n.getConn()
			c2, e2 := n.getConn()
			if e1 != nil || e2 != nil {
				verifUnsupported("cannot open two connections to a node")
			}
			n.releaseConn(c1)
			n.releaseConn(c2)
		}
		verifCover(true, "model.blocking.warm-pool")
	}
	verifPrepare(c)
	bs := verifScenario(verifParam("MNC", 2), 3, false)
	single := verifChoose("api", 2) == 0
	failed := false
	var done []verifPut
	for _, b := range bs {
		if failed {
			break
		}
		if single {
			for _, p := range b {
				done = append(done, p)
				if _, err := c.Do("set", []byte(p.key), []byte(p.val)); err != nil {
					failed = true
					break
				}
			}
			continue
		}
		bat := c.NewBatcher(false)
		for _, p := range b {
			done = append(done, p)
			if err := bat.Put("set", []byte(p.key), []byte(p.val)); err != nil {
				failed = true
			}
		}
		if _, err := bat.Exec(); err != nil {
			failed = true
		}
		verifSettle()
	}
	verifOracle("blocking", done, false, failed)
	verifCover(!failed && verifCM.mstate == 2, "model.blocking.migrated")
	verifReach("model.blocking.done")
}

// VerifC19ModelPipelined: batches are dispatched ahead of the replies of earlier ones (the sender keeps
// up to WINDOW batches in flight; replies are taken in dispatch order, as its receiver goroutine does).
func VerifC19ModelPipelined() {
	// with or without the asynchronous topology refresh that a MOVED reply triggers (without: the slot map
	// stays as loaded at start, every later batch is redirected again)
	refresh := verifChoose("refresh", 2) == 1
	tag := "pipelined"
	if refresh {
		tag = "pipelined+refresh"
	}
	c := verifNewModelCluster(refresh)
	verifPrepare(c)
	if b := verifParam("MPSTEPS", 4); verifCM.budget > b {
		verifCM.budget = b
	}
	bs := verifScenario(verifParam("MNP", 3), 2, true)
	nb := len(bs)
	window := verifParam("WINDOW", 3)
	var bats []interface {
		Receive() ([]interface{}, error)
	}
	failed := false
	var done []verifPut
	d, r := 0, 0
	for r < nb && !failed {
		canD := d < nb && d-r < window
		canR := r < d
		doD := canD
		if canD && canR {
			doD = verifChoose("step", 2) == 0
		}
		if doD {
			bat := c.NewBatcher(true)
			for _, p := range bs[d] {
				done = append(done, p)
				if err := bat.Put("set", []byte(p.key), []byte(p.val)); err != nil {
					failed = true
				}
			}
			if err := bat.Dispatch(); err != nil {
				failed = true
			}
			bats = append(bats, bat)
			d++
		} else {
			if _, err := bats[r].Receive(); err != nil {
				failed = true
			}
			r++
		}
		verifSettle()
	}
	verifOracle(tag, done, false, failed)
	verifCover(!failed && verifCM.mstate == 2, "model.pipelined.migrated")
	verifReach("model.pipelined.done")
}

// VerifC19ModelTxn: every batch is one MULTI/EXEC on one slot through the real txnBatcher (Exec, or
// Dispatch ahead of Receive).
func VerifC19ModelTxn() {
	c := verifNewModelCluster(true)
	verifPrepare(c)
	if b := verifParam("MTSTEPS", 4); verifCM.budget > b {
		verifCM.budget = b
	}
	// three writes on the two keys of the moving slot as [c1 c2][c3], [c1][c2 c3] or [c1][c2][c3]
	var bs [][]verifPut
	k := func(name string) string { return verifMKeys[verifChoose(name, 2)] }
	c1, c2, c3 := verifPut{verifMKeys[0], "v1"}, verifPut{k("key2"), "v2"}, verifPut{k("key3"), "v3"}
	switch verifChoose("shape", verifParam("MSHAPES", 3)) {
	case 0:
		bs = [][]verifPut{{c1, c2}, {c3}}
	case 1:
		bs = [][]verifPut{{c1}, {c2}, {c3}}
	default:
		bs = [][]verifPut{{c1}, {c2, c3}}
	}
	ahead := verifChoose("ahead", 2) == 1
	tag := "txn"
	if ahead {
		tag = "txn-ahead"
	}
	failed := false
	var done []verifPut
	var bats []*txnBatcher
	for _, b := range bs {
		tb := c.NewTxnBatcher().(*txnBatcher)
		for _, p := range b {
			done = append(done, p)
			if err := tb.Put("set", []byte(p.key), []byte(p.val)); err != nil {
				failed = true
			}
		}
		bats = append(bats, tb)
		if failed {
			break
		}
		if ahead {
			if err := tb.Dispatch(); err != nil {
				failed = true
				break
			}
			verifSettle()
			continue
		}
		if _, err := tb.Exec(); err != nil {
			failed = true
			break
		}
		verifSettle()
	}
	if ahead && !failed {
		for _, tb := range bats {
			if _, err := tb.Receive(); err != nil {
				failed = true
				break
			}
			verifSettle()
		}
	}
	verifOracle(tag, done, true, failed)
	verifCover(!failed && verifCM.mstate == 2, "model.txn.migrated")
	verifReach("model.txn.done")
}


// VerifC19ModelNilReply: one node batch in which a write answered with a nil bulk (GETSET of a key that
// does not exist yet, in a stable slot of the moving slot's source node) stands in front of / behind a
// write to the moving slot that is answered with MOVED or ASK - blocking (Batch.Exec) and pipelined
// (Dispatch, Receive): replies stay aligned with their commands, the redirected command is the one that
// is retried, every command executes once at the owner of its key.
func VerifC19ModelNilReply() {
	c := verifNewModelCluster(true)
	verifPrepare(c)
	m := verifCM
	// a key of a stable slot owned by the same node as the moving slot
	stable := ""
	for i := 0; i < 64 && stable == ""; i++ {
		k := "s" + verifItoa(int64(i))
		if sl := int(hash(k)); sl != m.mslot && m.rangeOwner(sl) == m.src {
			stable = k
		}
	}
	if stable == "" {
		verifUnsupported("no stable key on the source node among s0..s63")
	}
	if verifChoose("stable-exists", 2) == 1 {
		m.store[m.src][stable] = "old"
	}
	nilCmd := verifPut{stable, "n1"}
	mv := verifPut{verifMKeys[0], "v1"}
	order := verifChoose("order", 3) // nil reply first / last / on both sides of the redirected command
	var cmds []string
	var puts []verifPut
	add := func(cmd string, p verifPut) { cmds = append(cmds, cmd); puts = append(puts, p) }
	switch order {
	case 0:
		add("getset", nilCmd)
		add("set", mv)
	case 1:
		add("set", mv)
		add("getset", nilCmd)
	default:
		add("getset", nilCmd)
		add("set", mv)
		add("getset", verifPut{stable, "n2"})
	}
	pipelined := verifChoose("pipelined", 2) == 1
	failed := false
	bat := c.NewBatcher(pipelined)
	for i, p := range puts {
		if err := bat.Put(cmds[i], []byte(p.key), []byte(p.val)); err != nil {
			failed = true
		}
	}
	var replies []interface{}
	var err error
	if pipelined {
		if err = bat.Dispatch(); err == nil {
			verifSettle()
			replies, err = bat.(interface {
				Receive() ([]interface{}, error)
			}).Receive()
		}
	} else {
		replies, err = bat.Exec()
	}
	if err != nil {
		failed = true
	}
	verifSettle()
	if !failed {
		verifAssert(len(replies) == len(puts), "C19.model.nil-reply.reply-count")
	}
	verifOracle("nil-reply", puts, false, failed)
	// no command reached a node more often than its redirects explain: every command applied exactly once
	if !failed {
		for _, p := range puts {
			n := 0
			for _, r := range m.log {
				if r.key == p.key && r.val == p.val {
					n++
				}
			}
			verifAssert(n == 1, "C19.model.nil-reply.command-applied-once")
		}
	}
	verifCover(!failed && m.mstate >= 1, "model.nil-reply.redirected")
	verifReach("model.nil-reply.done")
}
