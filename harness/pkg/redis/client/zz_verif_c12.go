package client

import (
	"bufio"
	"bytes"
	"io"
	"strconv"

	"github.com/mgtv-tech/redis-GunYu/pkg/redis/client/proto"
)

// verifFragReader delivers the stream in fragments chosen by the environment:
// the first verifFragChoices reads return 1, 2 or "as much as fits" bytes.
type verifFragReader struct {
	data    []byte
	pos     int
	choices int
}

func (r *verifFragReader) Read(p []byte) (int, error) {
	if r.pos >= len(r.data) {
		return 0, io.EOF
	}
	n := len(r.data) - r.pos
	if n > len(p) {
		n = len(p)
	}
	if r.choices > 0 {
		r.choices--
		switch verifChoose("frag", 3) {
		case 0:
			n = 1
		case 1:
			if n > 2 {
				n = 2
			}
		}
	}
	copy(p[:n], r.data[r.pos:r.pos+n])
	r.pos += n
	return n, nil
}

type verifCmd struct {
	args [][]byte
	end  int // number of stream bytes up to and including this command
}

// verifGenStream builds K multi-bulk commands (reference RESP encoding written
// out by hand) with symbolic argument bytes, optionally preceded by '\n' keep-alives.
func verifGenStream(k, maxArgc, maxLen int) ([]byte, []verifCmd) {
	var stream []byte
	var cmds []verifCmd
	for c := 0; c < k; c++ {
		if verifChoose("heartbeat", 2) == 1 {
			stream = append(stream, '\n')
		}
		argc := verifRange("argc", 1, maxArgc)
		stream = append(stream, '*')
		stream = append(stream, strconv.Itoa(argc)...)
		stream = append(stream, '\r', '\n')
		var args [][]byte
		for a := 0; a < argc; a++ {
			var arg []byte
			if a == 0 {
				// command name: ASCII letters (the parser lower-cases it)
				arg = []byte{verifU8("name")}
				verifAssume(verifOr(verifAnd(arg[0] >= 'a', arg[0] <= 'z'), verifAnd(arg[0] >= 'A', arg[0] <= 'Z')))
			} else {
				arg = verifBytes("arg", verifRange("alen", 0, maxLen))
			}
			stream = append(stream, '$')
			stream = append(stream, strconv.Itoa(len(arg))...)
			stream = append(stream, '\r', '\n')
			stream = append(stream, arg...)
			stream = append(stream, '\r', '\n')
			args = append(args, arg)
		}
		cmds = append(cmds, verifCmd{args: args, end: len(stream)})
	}
	return stream, cmds
}

func verifLower(b byte) byte {
	return byte(verifIte(verifAnd(b >= 'A', b <= 'Z'), int64(b)+32, int64(b)))
}

// VerifC12Decode: decoding yields exactly the argument bytes sent and the
// offset reported after each command equals the bytes consumed so far, for
// every fragmentation of the underlying reads (real bufio.Reader, 16-byte buffer).
func VerifC12Decode() {
	k := verifParam("K", 2)
	stream, cmds := verifGenStream(k, verifParam("ARGC", 2), verifParam("ALEN", 2))
	fr := &verifFragReader{data: stream, choices: verifParam("FRAGS", 2)}
	d := NewDecoder(bufio.NewReaderSize(fr, 16))
	for i, c := range cmds {
		resp, off, err := MustDecodeOpt(d)
		verifAssert(err == nil, "C12.decode.no-error")
		if err != nil {
			return
		}
		verifObserve("off", off)
		verifAssert(off == int64(c.end), "C12.decode.offset")
		name, argv, err := ParseArgs(resp)
		verifAssert(err == nil, "C12.decode.parseargs")
		if err != nil {
			return
		}
		verifAssert(len(name) == 1 && name[0] == verifLower(c.args[0][0]), "C12.decode.name")
		verifAssert(len(argv) == len(c.args)-1, "C12.decode.argc")
		for j := range argv {
			verifAssert(bytes.Equal(argv[j], c.args[j+1]), "C12.decode.arg-bytes")
		}
		if i == len(cmds)-1 {
			verifReach("decode.all")
		}
	}
	// nothing invented: the stream is exhausted
	_, _, err := MustDecodeOpt(d)
	verifAssert(err != nil, "C12.decode.eof")
}

// VerifC12RoundTrip: encoding a command for the target (proto.Writer as used by
// the connection, and the Resp encoder) and decoding it returns the same arguments.
func VerifC12RoundTrip() {
	argc := verifRange("argc", 1, verifParam("ARGC", 2)+1)
	var args [][]byte
	for a := 0; a < argc; a++ {
		args = append(args, verifBytes("arg", verifRange("alen", 0, verifParam("ALEN", 2))))
	}
	var buf bytes.Buffer
	if verifChoose("encoder", 2) == 0 {
		w := proto.NewWriter(&buf, 64)
		ifs := make([]interface{}, len(args))
		for i := range args {
			if verifChoose("as", 2) == 0 {
				ifs[i] = args[i]
			} else {
				ifs[i] = string(args[i])
			}
		}
		verifAssert(w.WriteArgs(ifs) == nil, "C12.roundtrip.write")
		verifAssert(w.Flush() == nil, "C12.roundtrip.flush")
	} else {
		arr := make([]Resp, len(args))
		for i := range args {
			arr[i] = &BulkBytes{args[i]}
		}
		bw := bufio.NewWriterSize(&buf, 64)
		verifAssert(Encode(bw, &Array{arr}, true) == nil, "C12.roundtrip.encode")
	}
	enc := buf.Bytes()
	verifObserve("enclen", int64(len(enc)))
	d := NewDecoder(bufio.NewReaderSize(bytes.NewReader(enc), 16))
	resp, off, err := MustDecodeOpt(d)
	verifAssert(err == nil, "C12.roundtrip.decode")
	if err != nil {
		return
	}
	verifAssert(off == int64(len(enc)), "C12.roundtrip.offset")
	a, err := AsArray(resp, nil)
	verifAssert(err == nil && len(a) == len(args), "C12.roundtrip.argc")
	if err != nil || len(a) != len(args) {
		return
	}
	for i := range a {
		b, err := AsBulkBytes(a[i], nil)
		verifAssert(err == nil && bytes.Equal(b, args[i]), "C12.roundtrip.arg-bytes")
	}
	verifReach("roundtrip.done")
}

// VerifC12IntArgs: integer arguments are rendered in decimal (opaque itoa terms
// for symbolic values; the edges of the encoder's small-number table concretely).
func VerifC12IntArgs() {
	for _, v := range []int64{-1025, -1024, -1, 0, 9, 10, 524287, 524288, 1 << 40, -(1 << 62)} {
		verifAssert(itos(v) == strconv.FormatInt(v, 10), "C12.itos")
	}
	var buf bytes.Buffer
	w := proto.NewWriter(&buf, 64)
	n := int64(verifRange("n", -2, 12))
	verifAssert(w.WriteArgs([]interface{}{n}) == nil && w.Flush() == nil, "C12.intarg.write")
	d := NewDecoder(bufio.NewReader(bytes.NewReader(buf.Bytes())))
	resp, _, err := MustDecodeOpt(d)
	verifAssert(err == nil, "C12.intarg.decode")
	if err != nil {
		return
	}
	a, _ := AsArray(resp, nil)
	b, _ := AsBulkBytes(a[0], nil)
	verifAssert(string(b) == strconv.FormatInt(n, 10), "C12.intarg.value")
	verifC12NumArgs()
}

// verifC12NumArgs: numeric arguments whose decimal text has every length from 1 to 20+ characters
// (powers of ten and their predecessors, the 64-bit extremes, long floats), mixed with byte
// arguments in one command so that scratch buffers are reused: the decoder returns the decimal text.
func verifC12NumArgs() {
	var args []interface{}
	var want []string
	p := int64(1)
	for k := 0; k < 19; k++ {
		for _, v := range []int64{p - 1, p, -p} {
			args = append(args, v)
			want = append(want, strconv.FormatInt(v, 10))
		}
		args = append(args, []byte("x"))
		want = append(want, "x")
		if k < 18 {
			p *= 10
		}
	}
	for _, v := range []int64{1<<63 - 1, -1 << 63, 1715000000123456789} {
		args = append(args, v)
		want = append(want, strconv.FormatInt(v, 10))
	}
	for _, v := range []uint64{1<<64 - 1, 10000000000000000000, 9999999999999999999} {
		args = append(args, v)
		want = append(want, strconv.FormatUint(v, 10))
	}
	for _, v := range []int{1 << 40, -(1 << 62)} {
		args = append(args, v)
		want = append(want, strconv.Itoa(v))
	}
	args = append(args, []byte("tail"), "s")
	want = append(want, "tail", "s")
	var buf bytes.Buffer
	w := proto.NewWriter(&buf, 64)
	verifAssert(w.WriteArgs(args) == nil && w.Flush() == nil, "C12.intarg.write")
	d := NewDecoder(bufio.NewReader(bytes.NewReader(buf.Bytes())))
	resp, off, err := MustDecodeOpt(d)
	verifAssert(err == nil, "C12.intarg.decode")
	if err != nil {
		return
	}
	verifAssert(off == int64(buf.Len()), "C12.intarg.offset")
	a, _ := AsArray(resp, nil)
	verifAssert(len(a) == len(want), "C12.intarg.count")
	for i := 0; i < len(a) && i < len(want); i++ {
		b, _ := AsBulkBytes(a[i], nil)
		verifAssert(string(b) == want[i], "C12.intarg.value")
	}
}

// VerifC12ManyArgs: commands with many arguments (argument counts at and around every power of two
// from 64 to 2048 - where implementations keep pre-allocation or chunking thresholds) decode with
// every argument, the following command decodes as well, and both end offsets are exact.
func VerifC12ManyArgs() {
	sizes := []int{63, 64, 65, 255, 256, 257, 1023, 1024, 1025, 2047, 2048, 2049}
	n := sizes[verifChoose("nargs", len(sizes))]
	var stream []byte
	stream = append(stream, '*')
	stream = append(stream, strconv.Itoa(n+1)...)
	stream = append(stream, "\r\n$5\r\nRPUSH\r\n"...)
	vals := verifBytes("v", n)
	for i := 0; i < n; i++ {
		stream = append(stream, '$', '1', '\r', '\n', vals[i], '\r', '\n')
	}
	end1 := len(stream)
	stream = append(stream, "*3\r\n$3\r\nSET\r\n$1\r\nk\r\n$1\r\n"...)
	last := verifU8("last")
	stream = append(stream, last, '\r', '\n')
	d := NewDecoder(bufio.NewReaderSize(bytes.NewReader(stream), 64))
	resp, off, err := MustDecodeOpt(d)
	verifAssert(err == nil, "C12.decode.no-error")
	if err != nil {
		return
	}
	verifAssert(off == int64(end1), "C12.decode.offset")
	_, argv, err := ParseArgs(resp)
	verifAssert(err == nil, "C12.decode.parseargs")
	verifAssert(len(argv) == n, "C12.decode.argc")
	for i := 0; i < len(argv) && i < n; i++ {
		verifAssert(len(argv[i]) == 1 && argv[i][0] == vals[i], "C12.decode.arg-bytes")
	}
	resp2, off2, err2 := MustDecodeOpt(d)
	verifAssert(err2 == nil, "C12.decode.no-error")
	if err2 != nil {
		return
	}
	verifAssert(off2 == int64(len(stream)), "C12.decode.offset")
	name2, argv2, err3 := ParseArgs(resp2)
	verifAssert(err3 == nil && name2 == "set" && len(argv2) == 2 && len(argv2[1]) == 1 && argv2[1][0] == last, "C12.decode.command-after-large-command")
	verifReach("decode.many-args")
}

// VerifC12BigArg: one command carrying a large argument (lengths at and around 4 KiB, 64 KiB and
// 1 MiB - where buffers, pre-allocation limits and chunked reads have their thresholds - and a
// multi-megabyte one), most bytes concrete, the first, the last and one inner byte symbolic, read
// through a small or a default-sized bufio.Reader: the argument comes back byte-exact, the end
// offset equals the bytes consumed, and the command behind it decodes with an exact offset too.
func VerifC12BigArg() {
	sizes := []int{4095, 4096, 4097, 65534, 65535, 65536, 65537, 1<<20 - 2, 1<<20 - 1, 1 << 20, 1<<20 + 1, 3<<20 + 1}
	ns := verifParam("BIGSIZES", 10)
	if ns > len(sizes) {
		ns = len(sizes)
	}
	n := sizes[verifChoose("size", ns)]
	small := verifChoose("smallbuf", 2) == 1
	big := make([]byte, n)
	for i := 0; i < n; i += 997 {
		big[i] = byte(i>>3) | 1
	}
	b0, b1, b2 := verifU8("first"), verifU8("inner"), verifU8("last")
	big[0], big[n/2+1], big[n-1] = b0, b1, b2
	var stream []byte
	stream = append(stream, "*3\r\n$3\r\nSET\r\n$1\r\nk\r\n$"...)
	stream = append(stream, strconv.Itoa(n)...)
	stream = append(stream, '\r', '\n')
	stream = append(stream, big...)
	stream = append(stream, '\r', '\n')
	end1 := len(stream)
	stream = append(stream, "*3\r\n$3\r\nSET\r\n$1\r\nk\r\n$1\r\n"...)
	last := verifU8("next")
	stream = append(stream, last, '\r', '\n')
	var rd *bufio.Reader
	if small {
		rd = bufio.NewReaderSize(bytes.NewReader(stream), 64)
	} else {
		rd = bufio.NewReader(bytes.NewReader(stream))
	}
	d := NewDecoder(rd)
	resp, off, err := MustDecodeOpt(d)
	verifAssert(err == nil, "C12.decode.no-error")
	if err != nil {
		return
	}
	verifAssert(off == int64(end1), "C12.decode.offset")
	name, argv, err := ParseArgs(resp)
	verifAssert(err == nil && name == "set", "C12.decode.parseargs")
	verifAssert(len(argv) == 2, "C12.decode.argc")
	if len(argv) == 2 {
		verifAssert(len(argv[1]) == n, "C12.decode.arg-bytes")
		if len(argv[1]) == n {
			verifAssert(argv[1][0] == b0 && argv[1][n/2+1] == b1 && argv[1][n-1] == b2, "C12.decode.arg-bytes")
			verifAssert(bytes.Equal(argv[1], big), "C12.decode.arg-bytes")
		}
	}
	resp2, off2, err2 := MustDecodeOpt(d)
	verifAssert(err2 == nil, "C12.decode.no-error")
	if err2 != nil {
		return
	}
	verifAssert(off2 == int64(len(stream)), "C12.decode.offset")
	name2, argv2, err3 := ParseArgs(resp2)
	verifAssert(err3 == nil && name2 == "set" && len(argv2) == 2 && len(argv2[1]) == 1 && argv2[1][0] == last, "C12.decode.command-after-large-command")
	verifReach("decode.big-arg")
}
