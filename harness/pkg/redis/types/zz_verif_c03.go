package types

// C03-K2/K3: ziplist and listpack decoding against reference decoders
// transcribed from ziplist.c / listpack.c (DESIGN.md D4, D5).

import "strconv"

type verifElem struct {
	isInt bool
	str   []byte
	num   int64
}

func verifElemEq(got []byte, e verifElem) bool {
	if e.isInt {
		return string(got) == strconv.FormatInt(e.num, 10)
	}
	return string(got) == string(e.str)
}

func verifLE(b []byte) uint64 {
	var v uint64
	for i := len(b) - 1; i >= 0; i-- {
		v = v<<8 | uint64(b[i])
	}
	return v
}

// signed value of an n-byte little-endian two's complement integer
func verifSignedLE(b []byte) int64 {
	n := uint(len(b)) * 8
	v := verifLE(b)
	return int64(v<<(64-n)) >> (64 - n)
}

// verifZiplistEntry appends one entry of class c (reference encoding per ziplist.c).
func verifZiplistEntry(buf []byte, c int, bigPrev bool) ([]byte, verifElem) {
	if bigPrev {
		buf = append(buf, 0xFE, verifU8("prevlen"), verifU8("prevlen"), verifU8("prevlen"), verifU8("prevlen"))
	} else {
		p := verifU8("prevlen")
		verifAssume(p < 254)
		buf = append(buf, p)
	}
	switch c {
	case 0: // 6-bit length string
		n := verifRange("slen", 0, 2)
		s := verifBytes("s", n)
		buf = append(buf, byte(n))
		return append(buf, s...), verifElem{str: s}
	case 1: // 14-bit length string
		n := verifRange("slen", 0, 2)
		s := verifBytes("s", n)
		buf = append(buf, 0x40, byte(n))
		return append(buf, s...), verifElem{str: s}
	case 2: // 32-bit length string (big endian length)
		n := verifRange("slen", 0, 2)
		s := verifBytes("s", n)
		buf = append(buf, 0x80, 0, 0, 0, byte(n))
		return append(buf, s...), verifElem{str: s}
	case 3: // int16
		b := verifBytes("i", 2)
		buf = append(buf, 0xC0)
		return append(buf, b...), verifElem{isInt: true, num: verifSignedLE(b)}
	case 4: // int32
		b := verifBytes("i", 4)
		buf = append(buf, 0xD0)
		return append(buf, b...), verifElem{isInt: true, num: verifSignedLE(b)}
	case 5: // int64
		b := verifBytes("i", 8)
		buf = append(buf, 0xE0)
		return append(buf, b...), verifElem{isInt: true, num: verifSignedLE(b)}
	case 6: // int24 (signed)
		b := verifBytes("i", 3)
		buf = append(buf, 0xF0)
		return append(buf, b...), verifElem{isInt: true, num: verifSignedLE(b)}
	case 7: // int8
		b := verifBytes("i", 1)
		buf = append(buf, 0xFE)
		return append(buf, b...), verifElem{isInt: true, num: verifSignedLE(b)}
	default: // 4-bit immediate 0..12
		v := verifU8("imm")
		verifAssume(verifAnd(v >= 1, v <= 13))
		return append(buf, 0xF0|v), verifElem{isInt: true, num: int64(v) - 1}
	}
}

// VerifC03Ziplist: every entry class (string lengths in 6/14/32-bit form,
// int8/16/24/32/64 and immediates, 1- and 5-byte prevlen) with symbolic
// payload, ziplists with known and unknown (65535) entry count.
func VerifC03Ziplist() {
	n := verifRange("n", 0, verifParam("ZLN", 2))
	unknownLen := verifChoose("unknownlen", 2) == 1
	blob := []byte{0, 0, 0, 0, 0, 0, 0, 0} // zlbytes, zltail: not used by the reader
	if unknownLen {
		blob = append(blob, 0xFF, 0xFF)
	} else {
		blob = append(blob, byte(n), 0)
	}
	var want []verifElem
	for i := 0; i < n; i++ {
		var e verifElem
		blob, e = verifZiplistEntry(blob, verifChoose("class", 9), verifChoose("bigprev", 2) == 1)
		want = append(want, e)
	}
	blob = append(blob, 0xFF)

	var got [][]byte
	panicked := false
	func() {
		defer func() {
			if r := recover(); r != nil {
				panicked = true
			}
		}()
		zl := NewZiplist(blob)
		for e := zl.Next(); e != nil; e = zl.Next() {
			got = append(got, e)
			if len(got) > n+1 {
				break
			}
		}
	}()
	cls := "known-length"
	if unknownLen {
		cls = "unknown-length"
	}
	verifObserve("panicked", verifB2I(panicked))
	verifObserve("ngot", int64(len(got)))
	verifAssert(!panicked, "C03.ziplist.panic-on-valid/"+cls)
	if panicked {
		return
	}
	verifAssert(len(got) == n, "C03.ziplist.count/"+cls)
	for i := 0; i < len(got) && i < n; i++ {
		if want[i].isInt {
			verifAssert(verifElemEq(got[i], want[i]), "C03.ziplist.int-value")
		} else {
			verifAssert(verifElemEq(got[i], want[i]), "C03.ziplist.string-value")
		}
	}
	verifReach("ziplist.done")
}

// verifListpackElem appends one element of class c plus its back-length.
func verifListpackElem(buf []byte, c int) ([]byte, verifElem) {
	var enc []byte
	var e verifElem
	switch c {
	case 0: // 7-bit uint
		v := verifU8("u7")
		verifAssume(v < 128)
		enc, e = []byte{v}, verifElem{isInt: true, num: int64(v)}
	case 1: // 6-bit length string
		n := verifRange("slen", 0, 2)
		s := verifBytes("s", n)
		enc, e = append([]byte{0x80 | byte(n)}, s...), verifElem{str: s}
	case 2: // 13-bit signed int
		hi := verifU8("i13hi")
		verifAssume(hi < 32)
		lo := verifU8("i13lo")
		u := uint64(hi)<<8 | uint64(lo)
		enc, e = []byte{0xC0 | hi, lo}, verifElem{isInt: true, num: int64(u<<51) >> 51}
	case 3: // 12-bit length string
		n := verifRange("slen", 0, 2)
		s := verifBytes("s", n)
		enc, e = append([]byte{0xE0, byte(n)}, s...), verifElem{str: s}
	case 4: // 32-bit length string (little endian length)
		n := verifRange("slen", 0, 2)
		s := verifBytes("s", n)
		enc, e = append([]byte{0xF0, byte(n), 0, 0, 0}, s...), verifElem{str: s}
	case 5:
		b := verifBytes("i", 2)
		enc, e = append([]byte{0xF1}, b...), verifElem{isInt: true, num: verifSignedLE(b)}
	case 6:
		b := verifBytes("i", 3)
		enc, e = append([]byte{0xF2}, b...), verifElem{isInt: true, num: verifSignedLE(b)}
	case 7:
		b := verifBytes("i", 4)
		enc, e = append([]byte{0xF3}, b...), verifElem{isInt: true, num: verifSignedLE(b)}
	default:
		b := verifBytes("i", 8)
		enc, e = append([]byte{0xF4}, b...), verifElem{isInt: true, num: verifSignedLE(b)}
	}
	buf = append(buf, enc...)
	// back-length: all elements here are <= 127 bytes => 1 byte (its value is not read going forward)
	buf = append(buf, verifU8("backlen"))
	return buf, e
}

func VerifC03Listpack() {
	n := verifRange("n", 0, verifParam("LPN", 2))
	blob := []byte{0, 0, 0, 0, byte(n), 0}
	var want []verifElem
	for i := 0; i < n; i++ {
		var e verifElem
		blob, e = verifListpackElem(blob, verifChoose("class", 9))
		want = append(want, e)
	}
	blob = append(blob, 0xFF)
	panicked := false
	var got [][]byte
	func() {
		defer func() {
			if r := recover(); r != nil {
				panicked = true
			}
		}()
		lp := NewListpack(blob)
		verifAssert(int(lp.NumElements()) == n, "C03.listpack.numelements")
		for i := 0; i < n; i++ {
			got = append(got, lp.Next())
		}
		lp.End()
	}()
	verifObserve("panicked", verifB2I(panicked))
	verifAssert(!panicked, "C03.listpack.panic-on-valid")
	if panicked {
		return
	}
	for i := 0; i < n; i++ {
		if want[i].isInt {
			verifAssert(verifElemEq(got[i], want[i]), "C03.listpack.int-value")
		} else {
			verifAssert(verifElemEq(got[i], want[i]), "C03.listpack.string-value")
		}
	}
	verifReach("listpack.done")
}

// VerifC03Backlen: size of the back-length field per listpack.c:lpEncodeBacklen
// thresholds (127 / 16383 / 2097151 / 268435455) for every 32-bit element size.
func VerifC03Backlen() {
	l := verifU32("len")
	verifAssume(l < 1<<31)
	var want uint32
	switch {
	case l <= 127:
		want = 1
	case l < 16383:
		want = 2
	case l < 2097151:
		want = 3
	case l < 268435455:
		want = 4
	default:
		want = 5
	}
	verifAssert(lpEncodeBacklen(l) == l+want, "C03.listpack.backlen")
}
