package redis

import "github.com/mgtv-tech/redis-GunYu/pkg/digest"

// Reference (DESIGN.md D1, cluster spec keyHashSlot): the bytes that are hashed.
func verifRefTag(key string) string {
	s := -1
	for i := 0; i < len(key); i++ {
		if key[i] == '{' {
			s = i
			break
		}
	}
	if s < 0 {
		return key
	}
	e := -1
	for i := s + 1; i < len(key); i++ {
		if key[i] == '}' {
			e = i
			break
		}
	}
	if e < 0 || e == s+1 {
		return key
	}
	return key[s+1 : e]
}

// verifTagClass names the brace arrangement of a failing witness (known-finding class).
func verifTagClass(key string) string {
	opens, closes := 0, 0
	for i := 0; i < len(key); i++ {
		if key[i] == '{' {
			opens++
		}
		if key[i] == '}' {
			closes++
		}
	}
	switch {
	case opens == 0:
		return "no-open"
	case closes == 0:
		return "no-close"
	case opens == 1 && closes == 1:
		return "single-pair"
	default:
		return "multi-brace"
	}
}

var (
	verifCrcInput string
	verifCrcCalls int
)

// verifCrc16Stub replaces digest.Crc16 under the engine: records the hashed
// bytes and returns an arbitrary checksum (the CRC kernel is checked separately).
func verifCrc16Stub(buf string) uint16 {
	verifCrcInput = buf
	verifCrcCalls++
	return verifU16("crcout")
}

// VerifC11KeyToSlotTag: for every key of length <= N, KeyToSlot hashes exactly
// the bytes HASH_SLOT designates and reduces the checksum mod 16384.
func VerifC11KeyToSlotTag() {
	n := verifRange("len", 0, verifParam("N", 6))
	key := verifStr("key", n)
	ref := verifRefTag(key)
	if verifSymbolic() {
		verifCrcCalls = 0
		slot := KeyToSlot(key)
		verifAssert(verifCrcCalls == 1, "C11.KeyToSlot.crc-once")
		verifAssert(verifCrcInput == ref, "C11.KeyToSlot.tag")
		verifCover(len(ref) < len(key), "tag.used")
		verifCover(len(key) >= 2 && len(ref) == len(key) && key[0] == '{' && key[1] == '}', "tag.empty")
		verifAssert(slot < 16384, "C11.KeyToSlot.range")
		return
	}
	// native replay: the same comparison through the real checksum
	verifObserve("slot", int64(KeyToSlot(key)))
	verifAssert(KeyToSlot(key) == digest.Crc16(ref)&0x3fff, "C11.KeyToSlot.tag")
}

// VerifC11KeyToSlotE2E: end to end through the real CRC16 table for short keys.
func VerifC11KeyToSlotE2E() {
	n := verifRange("len", 0, verifParam("NE2E", 3))
	key := verifStr("key", n)
	want := verifRefCrc16(verifRefTag(key)) & 0x3fff
	verifObserve("slot", int64(KeyToSlot(key)))
	verifObserve("want", int64(want))
	verifAssert(KeyToSlot(key) == want, "C11.KeyToSlot.e2e")
}

// verifRefCrc16: bitwise CRC-16/XMODEM (poly 0x1021, init 0, no reflection).
func verifRefCrc16(s string) uint16 {
	var crc uint16
	for i := 0; i < len(s); i++ {
		crc ^= uint16(s[i]) << 8
		for b := 0; b < 8; b++ {
			if crc&0x8000 != 0 {
				crc = crc<<1 ^ 0x1021
			} else {
				crc <<= 1
			}
		}
	}
	return crc
}
