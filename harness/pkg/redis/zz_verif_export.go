package redis

import (
	"github.com/mgtv-tech/redis-GunYu/pkg/log"
	"github.com/mgtv-tech/redis-GunYu/pkg/redis/client"
)

// VerifNewStandalone builds a StandaloneRedis over a harness-supplied connection
// (the real constructor dials the network).
func VerifNewStandalone(cli client.Redis) *StandaloneRedis {
	return &StandaloneRedis{cli: cli, logger: log.WithLogger("[verif] ")}
}
