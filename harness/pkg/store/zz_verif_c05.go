package store

// C05 (disk backend) and C08 — the real Storer, writers and readers of
// pkg/store over the in-memory file system model (zz_verif_fs.go).

import (
	"context"
	"strings"
	"errors"
	"io"

	"github.com/mgtv-tech/redis-GunYu/pkg/common"
	"github.com/mgtv-tech/redis-GunYu/pkg/log"
	usync "github.com/mgtv-tech/redis-GunYu/pkg/sync"
)

// verifSrc feeds a writer's ingest loop: fixed chunks of symbolic bytes;
// hook(i) runs before chunk i is handed over (i == len(chunks): before EOF).
type verifSrc struct {
	chunks [][]byte
	i      int
	hook   func(i int)
}

func (s *verifSrc) Read(p []byte) (int, error) {
	if s.hook != nil {
		s.hook(s.i)
	}
	if s.i >= len(s.chunks) {
		return 0, io.EOF
	}
	n := copy(p, s.chunks[s.i])
	s.i++
	return n, nil
}

func verifChunks(name string, k, cmax int) (chunks [][]byte, all []byte) {
	for i := 0; i < k; i++ {
		n := verifRange(name+"len", 1, cmax)
		c := verifBytes(name, n)
		chunks = append(chunks, c)
		all = append(all, c...)
	}
	return
}

func verifPrefixLen(chunks [][]byte, i int) int {
	n := 0
	for _, c := range chunks[:i] {
		n += len(c)
	}
	return n
}

const verifBaseDir = "/d"

// verifNewStorer: a Storer as NewStorer builds it, minus the background collection timer
// (collection passes are run by the harness at chosen instants instead).
func verifNewStorer(logSize, maxSize int64) *Storer {
	return &Storer{
		Id:          "in",
		baseDir:     verifBaseDir,
		maxSize:     maxSize,
		logSize:     headerSize + logSize, // the limit counts the 16-byte header
		readBufSize: 16,
		closer:      usync.NewWaitCloser(nil),
		logger:      log.WithLogger("[verif] "),
		dataSet:     newDataSet(nil, nil),
	}
}

// verifReadAof pulls bytes through the rotating log reader until `want` bytes came or it starves
// (sleeps waiting for data) or fails; then one more step to see whether anything else comes.
func verifReadAof(rr *AofRotateReader, want int) (got []byte, err error) {
	buf := make([]byte, 4)
	for len(got) <= want {
		n, rerr, starved := verifTry(func() (int, error) { return rr.read(buf) })
		if starved {
			return got, nil
		}
		if rerr != nil {
			return got, rerr
		}
		got = append(got, buf[:n]...)
	}
	return got, nil
}

func verifReadRdb(rr *RdbReader) (got []byte) {
	buf := make([]byte, 4)
	for len(got) < 64 {
		n, err := rr.read(buf)
		got = append(got, buf[:n]...)
		if err != nil || n == 0 {
			break
		}
	}
	return got
}

type verifDiskModel struct {
	base    int64
	aof     []byte // aof[i] is the source byte at offset base+i
	aofOn   bool
	rdbOn   bool
	rdbLeft int64
	rdbSize int64
	rdb     []byte
	noGc    bool
	crc     bool
}

// verifDiskCheckAll: at one instant, for every offset around the cached range: the validity
// answer, reader creation and the delivered bytes agree with the model.
func verifDiskCheckAll(s *Storer, m *verifDiskModel) {
	right := m.base + int64(len(m.aof))
	l, r := s.GetOffsetRange()
	if m.aofOn {
		verifAssert(r == right, "C05.disk.range-right-is-not-last-written-offset")
		verifAssert(l <= r && l >= m.base, "C05.disk.range-left-outside-written")
		if m.noGc {
			verifAssert(l == m.base, "C05.disk.range-shrunk-without-collection")
		}
	}
	rl, rs := s.GetRdb()
	offered := rl != -1
	if offered {
		verifAssert(m.rdbOn && rl == m.rdbLeft && rs == m.rdbSize, "C05.disk.offers-unknown-snapshot")
	}
	if m.rdbOn && m.noGc {
		verifAssert(offered, "C05.disk.snapshot-withdrawn-without-collection")
	}
	for d := -1; d <= len(m.aof)+1; d++ {
		x := m.base + int64(d)
		valid := s.IsValidOffset(x)
		verifNote("check: written=" + verifItoa(int64(len(m.aof))) + " d=" + verifItoa(int64(d)))
		// checksum verification is exercised on log segments; for a snapshot file it checks the RDB
		// format's own trailer, which these arbitrary snapshot bytes do not carry
		rd, err := s.GetReader(x, m.crc && m.aofOn && d >= 0)
		verifAssert(valid == (err == nil), "C05.disk.valid-offset-but-no-reader")
		if m.aofOn && l != -1 && x >= l && x <= r {
			verifAssert(valid, "C05.disk.offset-inside-reported-range-invalid")
		}
		if d > len(m.aof) {
			verifAssert(!valid, "C05.disk.offset-beyond-written-valid")
		}
		if d < 0 && !offered {
			verifAssert(!valid, "C05.disk.offset-before-cache-valid-without-snapshot")
		}
		if err != nil {
			continue
		}
		if rd.IsAof() {
			verifAssert(rd.Left() == x, "C05.disk.reader-left")
			want := m.aof[d:]
			got, rerr := verifReadAof(rd.aof, len(want))
			verifAssert(rerr == nil, "C05.disk.aof-reader-error")
			verifAssert(len(got) == len(want), "C05.disk.aof-reader-length")
			for i := 0; i < len(got) && i < len(want); i++ {
				verifAssert(got[i] == want[i], "C05.disk.aof-reader-bytes")
			}
			rd.aof.Close()
			verifReach("c05.disk.aof-read")
		} else {
			verifAssert(offered, "C05.disk.snapshot-reader-for-unoffered-snapshot")
			verifAssert(rd.Left() == m.rdbLeft && rd.Size() == m.rdbSize, "C05.disk.snapshot-reader-meta")
			got := verifReadRdb(rd.rdb)
			verifAssert(len(got) == len(m.rdb), "C05.disk.snapshot-reader-length")
			for i := 0; i < len(got) && i < len(m.rdb); i++ {
				verifAssert(got[i] == m.rdb[i], "C05.disk.snapshot-reader-bytes")
			}
			rd.rdb.Close()
			verifReach("c05.disk.rdb-read")
		}
		rd.Close()
	}
}

// VerifC05DiskHistory: one replication id; optional snapshot, then the log, ingested by the
// real writers in chunks of chosen sizes with rotation at LOGSIZE data bytes per segment and
// (optionally) a collection pass with limit MAXSIZE at every chunk boundary; at every chunk
// boundary all offsets around the cached range are checked.
func VerifC05DiskHistory() {
	verifFS = verifNewFS()
	verifFS.add(verifBaseDir, &verifNode{dir: true})
	L := int64(verifParam("LOGSIZE", 2))
	K := verifParam("CHUNKS", 3)
	C := verifParam("CHUNKMAX", 3)
	R := verifParam("RDBCHUNKS", 2)
	var M int64
	gc := verifChoose("gc", 2) == 1
	if gc {
		M = int64(verifParam("MAXSIZE", 5))
	}
	s := verifNewStorer(L, M)
	m := &verifDiskModel{base: int64(verifParam("BASE", 100)), noGc: !gc, crc: verifChoose("crc", 2) == 1}
	verifAssert(s.SetRunId("r1") == nil, "C05.disk.set-runid")
	ctx := context.Background()
	collect := func() {
		if gc {
			s.gcLog()
			if rl, _ := s.GetRdb(); rl == -1 {
				m.rdbOn = false // collected: fine, as long as it is no longer offered
			}
		}
	}

	if verifChoose("snapshot", 2) == 1 {
		chunks, all := verifChunks("rdb", verifRange("rdbchunks", 1, R), C)
		m.rdbOn, m.rdbLeft, m.rdbSize = true, m.base, int64(len(all))
		src := &verifSrc{chunks: chunks}
		src.hook = func(i int) {
			m.rdb = all[:verifPrefixLen(chunks, i)]
			verifDiskCheckAll(s, m)
		}
		w, err := s.GetRdbWriter(src, m.base, m.rdbSize)
		verifAssert(err == nil, "C05.disk.new-rdb-writer")
		w.Start()
		verifAssert(w.Wait(ctx) == nil, "C05.disk.rdb-writer-error")
		m.rdb = all
		verifDiskCheckAll(s, m)
		verifCover(true, "c05.disk.snapshot-written")
	}

	// a reader that stays open while the log grows and the collector runs: on the snapshot (if
	// any) or on the first log segment; what it references must not be collected under it
	hold := verifChoose("hold", 3)
	var heldRdb, heldAof *Reader
	if hold == 1 && m.rdbOn {
		rd, err := s.GetReader(m.base-1, false)
		verifAssert(err == nil && !rd.IsAof(), "C05.disk.valid-offset-but-no-reader")
		if err == nil {
			heldRdb = rd
		}
	}

	chunks, all := verifChunks("aof", K, C)
	src := &verifSrc{chunks: chunks}
	src.hook = func(i int) {
		m.aof = all[:verifPrefixLen(chunks, i)]
		if hold == 2 && heldAof == nil && i == 1 {
			rd, err := s.GetReader(m.base, false)
			verifAssert(err == nil && rd.IsAof(), "C05.disk.valid-offset-but-no-reader")
			if err == nil {
				heldAof = rd
			}
		}
		collect()
		verifDiskCheckAll(s, m)
	}
	w, err := s.GetAofWritter(src, m.base)
	verifAssert(err == nil, "C05.disk.new-aof-writer")
	m.aofOn = true
	w.Start()
	werr := w.Wait(ctx)
	verifAssert(werr != nil && errors.Is(werr, io.EOF), "C05.disk.aof-writer-end")
	verifAssert(w.Right() == m.base+int64(len(all)), "C05.disk.writer-right")
	m.aof = all
	collect()
	verifDiskCheckAll(s, m)
	if heldRdb != nil {
		got := verifReadRdb(heldRdb.rdb)
		verifAssert(len(got) == len(m.rdb), "C05.disk.held-snapshot-reader-length")
		for i := 0; i < len(got) && i < len(m.rdb); i++ {
			verifAssert(got[i] == m.rdb[i], "C05.disk.held-snapshot-reader-bytes")
		}
		heldRdb.rdb.Close()
		heldRdb.Close()
		verifCover(gc, "c05.disk.held-snapshot-during-collection")
	}
	if heldAof != nil {
		got, rerr := verifReadAof(heldAof.aof, len(all))
		verifAssert(rerr == nil, "C05.disk.held-reader-error")
		verifAssert(len(got) == len(all), "C05.disk.held-reader-length")
		for i := 0; i < len(got) && i < len(all); i++ {
			verifAssert(got[i] == all[i], "C05.disk.held-reader-bytes")
		}
		heldAof.aof.Close()
		heldAof.Close()
		verifCover(gc, "c05.disk.held-reader-during-collection")
	}
	verifReach("c05.disk.history-end")
}

// ---------------------------------------------------------------------------
// C08: reopening the directory image frozen at any instant of a write sequence.

// verifSnap: a snapshot of the history by its offset
type verifSnap struct {
	left int64
	data []byte
}

// verifCheckServedTruth: whatever this Storer reports and serves is true: one contiguous range inside
// what the source sent (stream[i] is the byte at offset base+i), every valid offset readable up to
// the reported right edge with the source's bytes, an offered snapshot completely present.
// pfx selects the assertion family ("C08." after a restart, "C05.disk." for a live cache).
func verifCheckServedTruth(s2 *Storer, base int64, stream []byte, snaps []verifSnap, pfx string) {
	end := base + int64(len(stream))
	l, r := s2.GetOffsetRange()
	verifAssert((l == -1) == (r == -1), pfx+"range-half-defined")
	if l != -1 {
		verifAssert(l <= r && l >= base && r <= end, pfx+"range-outside-what-was-sent")
	}
	rl, rs := s2.GetRdb()
	if rl != -1 {
		found := false
		for _, sn := range snaps {
			if sn.left == rl && int64(len(sn.data)) == rs {
				found = true
				rd, err := s2.GetReader(rl-1, false)
				verifAssert(err == nil && !rd.IsAof(), pfx+"offered-snapshot-unreadable")
				f, ferr := verifOpenFile(rdbFilePath(s2.dir, rl, rs), 0, 0)
				verifAssert(ferr == nil, pfx+"offered-snapshot-has-no-file")
				if ferr == nil {
					verifAssert(int64(len(f.n.data)) == rs, pfx+"incomplete-snapshot-offered")
					for i := 0; i < len(f.n.data) && i < len(sn.data); i++ {
						verifAssert(f.n.data[i] == sn.data[i], pfx+"snapshot-bytes-differ")
					}
				}
				if err == nil {
					rd.Close()
				}
			}
		}
		verifAssert(found, pfx+"offers-unknown-snapshot")
		verifCover(true, "served.snapshot-offered")
	}
	for x := base - 1; x <= end+1; x++ {
		valid := s2.IsValidOffset(x)
		inRange := l != -1 && x >= l && x <= r
		if inRange {
			verifAssert(valid, pfx+"offset-inside-reported-range-invalid")
		}
		if x > end || (x < base && rl == -1) {
			verifAssert(!valid, pfx+"offset-never-sent-valid")
		}
		if !valid {
			continue
		}
		rd, err := s2.GetReader(x, false)
		verifAssert(err == nil, pfx+"valid-offset-but-no-reader")
		if err != nil {
			continue
		}
		if rd.IsAof() {
			// everything from x to the reported right edge, and exactly the source's bytes
			want := int(r - x)
			got, rerr := verifReadAof(rd.aof, want)
			verifAssert(rerr == nil, pfx+"reader-error-inside-range")
			verifAssert(len(got) == want, pfx+"range-not-contiguous")
			for i := 0; i < len(got); i++ {
				o := int(x-base) + i
				verifAssert(o < len(stream) && got[i] == stream[o], pfx+"serves-bytes-the-source-did-not-send")
			}
			rd.aof.Close()
			verifReach("served.read")
		} else {
			rd.rdb.Close()
		}
		rd.Close()
	}
}

// VerifC08Crash: a write sequence under one replication id (optional snapshot, log with
// rotation, optionally a collection pass, optionally a second full synchronisation further on in
// the same history) runs with crash imaging armed; the image - frozen at any mutation, inside
// any write, or complete - is reopened by a fresh Storer. What that one reports must be one
// contiguous range of true source bytes, and a snapshot is offered only if complete.
func VerifC08Crash() {
	verifFS = verifNewFS()
	verifFS.add(verifBaseDir, &verifNode{dir: true})
	L := int64(verifParam("LOGSIZE", 2))
	K := verifParam("CHUNKS", 2)
	C := verifParam("CHUNKMAX", 3)
	base := int64(verifParam("BASE", 98))
	s := verifNewStorer(L, int64(verifParam("MAXSIZE", 3)))
	verifAssert(s.SetRunId("r1") == nil, "C08.set-runid")
	verifFS.armed = true
	ctx := context.Background()

	// source truth of this replication id: stream[i] is the byte at offset base+i; snapshots by their offset
	var stream []byte
	var snaps []verifSnap

	epoch := func(name string, left int64, withRdb bool, collectAt int) {
		if withRdb {
			rchunks, rall := verifChunks(name+"rdb", 1, C)
			snaps = append(snaps, verifSnap{left, rall})
			w, err := s.GetRdbWriter(&verifSrc{chunks: rchunks}, left, int64(len(rall)))
			verifAssert(err == nil, "C08.new-rdb-writer")
			w.Start()
			w.Wait(ctx)
		}
		chunks, all := verifChunks(name, K, C)
		stream = append(stream, all...)
		src := &verifSrc{chunks: chunks}
		src.hook = func(i int) {
			if i == collectAt {
				s.gcLog()
			}
		}
		w, err := s.GetAofWritter(src, left)
		verifAssert(err == nil, "C08.new-aof-writer")
		w.Start()
		w.Wait(ctx)
	}

	scenario := verifChoose("scenario", 5)
	switch scenario {
	case 0: // log only
		epoch("a", base, false, -1)
	case 1: // snapshot then log
		epoch("a", base, true, -1)
	case 2: // snapshot, log, and a collection pass over the limit while the log grows
		epoch("a", base, true, K)
	case 3: // log, then a second full synchronisation later in the same history (bytes in between never cached)
		epoch("a", base, false, -1)
		skip := verifRange("skip", 0, 2)
		stream = append(stream, verifBytes("uncached", skip)...)
		epoch("b", base+int64(len(stream)), true, -1)
	default: // snapshot + log, then the log writer is replaced at a later offset without a reset: a gap on disk
		epoch("a", base, true, -1)
		skip := verifRange("skip", 1, 2)
		stream = append(stream, verifBytes("uncached", skip)...)
		epoch("b", base+int64(len(stream)), false, -1)
		verifCover(true, "c08.gap-on-disk")
	}
	verifFS.armed = false
	img := verifFS.frozen
	crashed := img != nil
	if img == nil {
		img = verifFS.clone()
	}
	verifCover(crashed, "c08.crashed")
	verifCover(!crashed, "c08.complete")

	// --- restart on the frozen image; the restart's own clean-up may be cut short as well, then a
	// further restart opens what that left ---
	verifFS = img
	verifFS.armed, verifFS.frozen = true, nil
	s2 := verifNewStorer(L, 0)
	verifAssert(s2.SetRunId("r1") == nil, "C08.reopen")
	verifFS.armed = false
	if img2 := verifFS.frozen; img2 != nil {
		verifFS = img2
		s2 = verifNewStorer(L, 0)
		verifAssert(s2.SetRunId("r1") == nil, "C08.reopen")
		verifCover(true, "c08.crash-during-reopen")
	}
	verifCheckServedTruth(s2, base, stream, snaps, "C08.")
	verifReach("c08.end")
}

// VerifC08WriteFault: one write of the run fails (disk full, medium error) - the n-th write call over all
// files, for every n - while a snapshot and a log are being cached; the process then stops (the failed
// writer has given up, nothing else is written). A fresh Storer on what is left serves only bytes the
// cache truly holds: in particular a snapshot whose last chunk was never stored is not offered.
func VerifC08WriteFault() {
	verifFS = verifNewFS()
	verifFS.add(verifBaseDir, &verifNode{dir: true})
	L := int64(verifParam("LOGSIZE", 2))
	C := verifParam("CHUNKMAX", 3)
	base := int64(verifParam("BASE", 98))
	s := verifNewStorer(L, 0)
	verifAssert(s.SetRunId("r1") == nil, "C08.set-runid")
	ctx := context.Background()
	verifFS.writes = 0
	verifFS.failWrite = verifRange("failWrite", 1, verifParam("FAULTWRITES", 8))
	var stream []byte
	var snaps []verifSnap
	rchunks, rall := verifChunks("rdb", verifRange("rdbchunks", 1, 2), C)
	snaps = append(snaps, verifSnap{base, rall})
	w, err := s.GetRdbWriter(&verifSrc{chunks: rchunks}, base, int64(len(rall)))
	if err == nil {
		w.Start()
		w.Wait(ctx)
	} else {
		verifAssert(verifFS.writes >= verifFS.failWrite, "C08.new-rdb-writer")
	}
	faulted := verifFS.writes >= verifFS.failWrite
	if !faulted {
		chunks, all := verifChunks("a", 2, C)
		stream = append(stream, all...)
		aw, err := s.GetAofWritter(&verifSrc{chunks: chunks}, base)
		if err == nil {
			aw.Start()
			aw.Wait(ctx)
		} else {
			// (the writer could not even be set up: nothing of the log is cached)
			verifAssert(verifFS.writes >= verifFS.failWrite, "C08.new-aof-writer")
		}
		faulted = verifFS.writes >= verifFS.failWrite
	}
	verifCover(faulted, "c08.write-fault")
	verifFS.failWrite = 0
	verifFS = verifFS.clone()
	s2 := verifNewStorer(L, 0)
	verifAssert(s2.SetRunId("r1") == nil, "C08.reopen")
	verifCheckServedTruth(s2, base, stream, snaps, "C08.fault.")
	verifReach("c08.fault-end")
}

// VerifC08Corrupt: with checksum verification on, a closed segment whose data was altered
// (any single byte, any other value) or whose recorded size/checksum was altered is refused.
func VerifC08Corrupt() {
	verifFS = verifNewFS()
	verifFS.add(verifBaseDir, &verifNode{dir: true})
	n := verifParam("SEGBYTES", 2)
	base := int64(100)
	s := verifNewStorer(int64(n), 0)
	s.SetRunId("r1")
	chunk := verifBytes("seg", n+1) // one byte more than the limit: the first segment is closed by rotation... at n+1 bytes
	// the altered segment is followed by a newer one, or it is itself the newest the restarted process finds
	// (clean stop, or death right after the rotation)
	chunks := [][]byte{chunk}
	if verifChoose("newerSegment", 2) == 1 {
		chunks = append(chunks, verifBytes("next", 1))
	} else {
		verifCover(true, "c08.corrupt.newest-segment")
	}
	w, err := s.GetAofWritter(&verifSrc{chunks: chunks}, base)
	verifAssert(err == nil, "C08.new-aof-writer")
	w.Start()
	w.Wait(context.Background())

	path := aofFilePath(s.dir, base)
	node, ok := verifFS.nodes[path]
	verifAssert(ok && len(node.data) == headerSize+n+1, "C08.corrupt.setup")
	if !ok {
		return
	}
	// unaltered: accepted
	rd0, err0 := NewAofReader(path)
	verifAssert(err0 == nil && rd0.Verify() == nil, "C08.intact-segment-refused")

	where := verifChoose("where", 3)
	switch where {
	case 0: // a data byte
		i := headerSize + verifRange("idx", 0, n)
		nv := verifU8("newval")
		verifAssume(nv != node.data[i])
		node.data[i] = nv
	case 1: // the recorded checksum
		i := 1 + verifRange("idx", 0, 7)
		nv := verifU8("newval")
		verifAssume(nv != node.data[i])
		node.data[i] = nv
	default: // the recorded size
		i := 9 + verifRange("idx", 0, 3)
		nv := verifU8("newval")
		verifAssume(nv != node.data[i])
		node.data[i] = nv
	}
	rd1, err1 := NewAofReader(path)
	verifAssert(err1 == nil, "C08.corrupt.open")
	verr := rd1.Verify()
	verifAssert(verr != nil && errors.Is(verr, common.ErrCorrupted), "C08.altered-segment-accepted")
	// and through the cache itself
	s2 := verifNewStorer(int64(n), 0)
	s2.SetRunId("r1")
	_, gerr := s2.GetReader(base, true)
	verifAssert(gerr != nil, "C08.altered-segment-served")
	verifReach("c08.corrupt-end")
}

// VerifC08CorruptLater: the altered segment is not the one the reader is opened on but one it
// reaches by following the rotation: with checksum verification its bytes are never served.
func VerifC08CorruptLater() {
	verifFS = verifNewFS()
	verifFS.add(verifBaseDir, &verifNode{dir: true})
	n := verifParam("SEGBYTES", 2)
	base := int64(100)
	s := verifNewStorer(int64(n), 0)
	s.SetRunId("r1")
	c0 := verifBytes("seg0", n+1)
	c1 := verifBytes("seg1", n+1)
	w, err := s.GetAofWritter(&verifSrc{chunks: [][]byte{c0, c1, verifBytes("seg2", 1)}}, base)
	verifAssert(err == nil, "C08.new-aof-writer")
	w.Start()
	w.Wait(context.Background())
	src := append(append([]byte{}, c0...), c1...)
	path1 := aofFilePath(s.dir, base+int64(n+1))
	node, ok := verifFS.nodes[path1]
	verifAssert(ok && len(node.data) == headerSize+n+1, "C08.corrupt.setup")
	if !ok {
		return
	}
	i := headerSize + verifRange("idx", 0, n)
	nv := verifU8("newval")
	verifAssume(nv != node.data[i])
	node.data[i] = nv

	s2 := verifNewStorer(int64(n), 0)
	s2.SetRunId("r1")
	rd, gerr := s2.GetReader(base, true)
	verifAssert(gerr == nil, "C08.intact-segment-refused")
	if gerr != nil {
		return
	}
	got, _ := verifReadAof(rd.aof, len(src)+1)
	verifAssert(len(got) >= n+1, "C08.intact-segment-refused")
	for k := 0; k < len(got); k++ {
		verifAssert(k < n+1 && got[k] == src[k], "C08.altered-segment-served")
	}
	rd.aof.Close()
	rd.Close()
	verifReach("c08.corrupt-later-end")
}

// ---------------------------------------------------------------------------
// C06 (disk cache side): looking up which of the source's ids the cache holds must not relabel
// cached bytes: a cache written under one replication id is only ever offered under that id.

// VerifC06VerifyRunId: the cache holds a log under id r0; the source reports its ids (current
// first) as [r1, r0], [r1] or [r0]; Storer.VerifyRunId answers with r0's newest offset when r0 is
// among them and leaves the cache under r0 in every case.
func VerifC06VerifyRunId() {
	verifFS = verifNewFS()
	verifFS.add(verifBaseDir, &verifNode{dir: true})
	s := verifNewStorer(2, 0)
	verifAssert(s.SetRunId("r0") == nil, "C06.store.set-runid")
	chunks, all := verifChunks("aof", verifParam("CHUNKS", 2), verifParam("CHUNKMAX", 3))
	w, err := s.GetAofWritter(&verifSrc{chunks: chunks}, 100)
	verifAssert(err == nil, "C06.store.new-aof-writer")
	w.Start()
	w.Wait(context.Background())
	right := int64(100 + len(all))
	var before []string
	before = append(before, verifFS.children(verifBaseDir+"/r0")...)

	var ids []string
	switch verifChoose("ids", 3) {
	case 0:
		ids = []string{"r1", "r0"} // after a fail-over: the previous id is still reported
	case 1:
		ids = []string{"r1"} // an unrelated history
	default:
		ids = []string{"r0"}
	}
	off, verr := s.VerifyRunId(ids)
	verifAssert(verr == nil, "C06.store.verify-runid-error")
	// r0's bytes are offered under r0 only: no other id's directory holds segments now, and if the
	// cache switched to another id it serves nothing under it
	for _, p := range verifFS.paths {
		if strings.HasPrefix(p, verifBaseDir+"/") && !strings.HasPrefix(p, verifBaseDir+"/r0") && strings.Count(p, "/") > 2 {
			verifAssert(false, "C06.cache-relabelled-by-lookup")
		}
	}
	l, r := s.GetOffsetRange()
	if s.RunId() == "r0" {
		verifAssert(l == 100 && r == right, "C06.store.range-changed-by-lookup")
		after := verifFS.children(verifBaseDir + "/r0")
		verifAssert(len(after) == len(before), "C06.store.range-changed-by-lookup")
		if len(ids) == 2 || ids[0] == "r0" {
			verifAssert(off == right, "C06.store.lookup-misses-cached-history")
		}
	} else {
		verifAssert(l == -1 && r == -1, "C06.cache-relabelled-by-lookup")
	}
	verifReach("c06.store.lookup-done")
}

// VerifC05DiskGapReload (C05, disk): a live cache whose log writer was replaced at a later offset (the
// disk backend accepts that: a gap between the segments) reloads its index (what every reconnect does
// through StartPoint/VerifyRunId): afterwards whatever it reports valid is readable with the source's
// bytes, and a snapshot is offered only while its bytes are present.
func VerifC05DiskGapReload() {
	verifFS = verifNewFS()
	verifFS.add(verifBaseDir, &verifNode{dir: true})
	L := int64(verifParam("LOGSIZE", 2))
	C := verifParam("CHUNKMAX", 3)
	base := int64(verifParam("BASE", 100))
	s := verifNewStorer(L, 0)
	verifAssert(s.SetRunId("r1") == nil, "C05.disk.set-runid")
	ctx := context.Background()
	var stream []byte
	var snaps []verifSnap
	if verifChoose("snapshot", 2) == 1 {
		rchunks, rall := verifChunks("rdb", 1, C)
		snaps = append(snaps, verifSnap{base, rall})
		w, err := s.GetRdbWriter(&verifSrc{chunks: rchunks}, base, int64(len(rall)))
		verifAssert(err == nil, "C05.disk.new-rdb-writer")
		w.Start()
		w.Wait(ctx)
	}
	c1, a1 := verifChunks("a", verifParam("GAPCHUNKS", 2), C)
	w1, err := s.GetAofWritter(&verifSrc{chunks: c1}, base)
	verifAssert(err == nil, "C05.disk.new-aof-writer")
	w1.Start()
	w1.Wait(ctx)
	stream = append(stream, a1...)
	// 0: the replacement continues seamlessly; > 0: a gap on disk; < 0: the replacement starts inside what is
	// already cached (the same history re-joined at an earlier offset: the bytes are the same)
	skip := verifRange("skip", -verifParam("OVERLAP", 0), 2)
	c2, a2 := verifChunks("b", 1, C)
	if skip > 0 {
		stream = append(stream, verifBytes("uncached", skip)...)
	} else if skip < 0 {
		if -skip > len(stream) {
			skip = -len(stream)
		}
		cut := len(stream) + skip
		for i := 0; i < -skip && i < len(a2); i++ {
			verifAssume(a2[i] == stream[cut+i])
		}
		if len(a2) < -skip {
			// the replacement ends inside the old data: what lies behind it stays what it was
			a2 = append(append([]byte{}, a2...), stream[cut+len(a2):]...)
		}
		stream = stream[:cut]
		verifCover(true, "c05.disk.overlap")
	}
	w2, err := s.GetAofWritter(&verifSrc{chunks: c2}, base+int64(len(stream)))
	verifAssert(err == nil, "C05.disk.new-aof-writer")
	w2.Start()
	w2.Wait(ctx)
	stream = append(stream, a2...)
	_, verr := s.VerifyRunId([]string{"r1"})
	verifAssert(verr == nil, "C05.disk.reload-error")
	verifCheckServedTruth(s, base, stream, snaps, "C05.disk.reload.")
	verifCover(skip > 0, "c05.disk.gap")
	verifReach("c05.disk.gap-reload-end")
}
