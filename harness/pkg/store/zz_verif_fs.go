package store

// In-memory file system standing for package os under pkg/store (the spec's
// "rewrite" redirects os.OpenFile/Stat/Remove/RemoveAll/Rename/MkdirAll,
// filepath.Walk, *os.File and time.Sleep to the functions below, in the
// symbolic run and in native replays alike). Semantics: POSIX-like flat
// namespace of absolute paths; open handles stay valid across rename/remove;
// writes are visible at once (a process crash, not a power loss: no page cache
// is modelled); directory listings are in lexical order.
//
// Crash imaging: while armed, every mutation is a point where the directory
// image may be frozen (a decision of the explorer); a write may be frozen after
// a prefix of its bytes (torn write).

import (
	"errors"
	"io"
	"io/fs"
	"os"
	"path/filepath"
	"sort"
	"strings"
	"time"
)

type verifNode struct {
	data []byte
	dir  bool
}

type verifFSys struct {
	nodes  map[string]*verifNode
	paths  []string // sorted
	armed  bool
	// failWrite > 0: exactly that write call (1-based, counted over all files) fails with an I/O error
	// after storing nothing (disk full, medium error); writes counts them
	failWrite int
	writes    int
	frozen *verifFSys
	muts   int
}

var verifFS = verifNewFS()

func verifNewFS() *verifFSys { return &verifFSys{nodes: map[string]*verifNode{}} }

func (f *verifFSys) clone() *verifFSys {
	c := verifNewFS()
	for _, p := range f.paths {
		n := f.nodes[p]
		c.nodes[p] = &verifNode{data: append([]byte(nil), n.data...), dir: n.dir}
	}
	c.paths = append([]string(nil), f.paths...)
	return c
}

func (f *verifFSys) add(p string, n *verifNode) {
	if _, ok := f.nodes[p]; !ok {
		i := sort.SearchStrings(f.paths, p)
		f.paths = append(f.paths, "")
		copy(f.paths[i+1:], f.paths[i:])
		f.paths[i] = p
	}
	f.nodes[p] = n
}

func (f *verifFSys) del(p string) {
	if _, ok := f.nodes[p]; !ok {
		return
	}
	delete(f.nodes, p)
	i := sort.SearchStrings(f.paths, p)
	f.paths = append(f.paths[:i], f.paths[i+1:]...)
}

func (f *verifFSys) children(dir string) []string {
	var out []string
	pre := dir + "/"
	for _, p := range f.paths {
		if strings.HasPrefix(p, pre) {
			out = append(out, p)
		}
	}
	return out
}

// crashPoint: the image may be frozen before the mutation that follows.
func (f *verifFSys) crashPoint() {
	f.muts++
	if f.armed && f.frozen == nil && verifChoose("crash", 2) == 1 {
		f.frozen = f.clone()
	}
}

func verifNotExist(op, p string) error { return &fs.PathError{Op: op, Path: p, Err: fs.ErrNotExist} }

type verifFile struct {
	fsys   *verifFSys
	n      *verifNode
	path   string
	pos    int64
	closed bool
}

func verifOpenFile(p string, flag int, perm os.FileMode) (*verifFile, error) {
	f := verifFS
	n, ok := f.nodes[p]
	if flag&os.O_CREATE != 0 {
		if d, okd := f.nodes[filepath.Dir(p)]; !okd || !d.dir {
			return nil, verifNotExist("open", p)
		}
		if !ok {
			f.crashPoint()
			n = &verifNode{}
			f.add(p, n)
		} else if flag&os.O_TRUNC != 0 && len(n.data) > 0 {
			f.crashPoint()
			n.data = nil
		}
	} else if !ok {
		return nil, verifNotExist("open", p)
	}
	return &verifFile{fsys: f, n: n, path: p}, nil
}

func (h *verifFile) Write(b []byte) (int, error) {
	if h == nil {
		return 0, fs.ErrInvalid // like a nil *os.File
	}
	if h.closed {
		return 0, fs.ErrClosed
	}
	f := h.fsys
	f.muts++
	f.writes++
	if f.writes == f.failWrite {
		return 0, verifErrIO
	}
	if f.armed && f.frozen == nil && len(b) > 0 {
		// torn write: the image holds the first k bytes of this write (k = 0: crash just before it)
		cuts := []int{0}
		if len(b) > 1 {
			cuts = append(cuts, 1)
		}
		if len(b) > 3 {
			cuts = append(cuts, len(b)/2)
		}
		if len(b) > 2 {
			cuts = append(cuts, len(b)-1)
		}
		if c := verifChoose("torn", len(cuts)+1); c < len(cuts) {
			img := f.clone()
			if in, ok := img.nodes[h.path]; ok && f.nodes[h.path] == h.n {
				in.data = verifWriteAt(in.data, h.pos, b[:cuts[c]])
			}
			f.frozen = img
		}
	}
	h.n.data = verifWriteAt(h.n.data, h.pos, b)
	h.pos += int64(len(b))
	return len(b), nil
}

var verifErrIO = errors.New("verif fs: no space left on device")

func verifWriteAt(data []byte, pos int64, b []byte) []byte {
	for int64(len(data)) < pos {
		data = append(data, 0)
	}
	for i, c := range b {
		if pos+int64(i) < int64(len(data)) {
			data[pos+int64(i)] = c
		} else {
			data = append(data, c)
		}
	}
	return data
}

func (h *verifFile) Read(b []byte) (int, error) {
	if h == nil {
		return 0, fs.ErrInvalid // like a nil *os.File
	}
	if h.closed {
		return 0, fs.ErrClosed
	}
	if h.pos >= int64(len(h.n.data)) {
		if len(b) == 0 {
			return 0, nil
		}
		return 0, io.EOF
	}
	n := copy(b, h.n.data[h.pos:])
	h.pos += int64(n)
	return n, nil
}

func (h *verifFile) Seek(off int64, whence int) (int64, error) {
	if h == nil {
		return 0, fs.ErrInvalid // like a nil *os.File
	}
	if h.closed {
		return 0, fs.ErrClosed
	}
	switch whence {
	case 0:
		h.pos = off
	case 1:
		h.pos += off
	default:
		h.pos = int64(len(h.n.data)) + off
	}
	if h.pos < 0 {
		h.pos = 0
		return 0, fs.ErrInvalid
	}
	return h.pos, nil
}

func (h *verifFile) Sync() error {
	if h == nil {
		return fs.ErrInvalid
	}
	return nil
}

func (h *verifFile) Close() error {
	if h == nil {
		return fs.ErrInvalid
	}
	if h.closed {
		return fs.ErrClosed
	}
	h.closed = true
	return nil
}

type verifFileInfo struct {
	name string
	size int64
	dir  bool
}

func (i verifFileInfo) Name() string { return i.name }
func (i verifFileInfo) Size() int64  { return i.size }
func (i verifFileInfo) Mode() fs.FileMode {
	if i.dir {
		return fs.ModeDir | 0777
	}
	return 0777
}
func (i verifFileInfo) ModTime() time.Time { return time.Time{} }
func (i verifFileInfo) IsDir() bool        { return i.dir }
func (i verifFileInfo) Sys() interface{}   { return nil }

func verifStat(p string) (os.FileInfo, error) {
	n, ok := verifFS.nodes[p]
	if !ok {
		return nil, verifNotExist("stat", p)
	}
	return verifFileInfo{name: filepath.Base(p), size: int64(len(n.data)), dir: n.dir}, nil
}

func verifIsNotExist(err error) bool { return errors.Is(err, fs.ErrNotExist) }

func verifRemove(p string) error {
	f := verifFS
	n, ok := f.nodes[p]
	if !ok {
		return verifNotExist("remove", p)
	}
	if n.dir && len(f.children(p)) > 0 {
		return &fs.PathError{Op: "remove", Path: p, Err: fs.ErrInvalid}
	}
	f.crashPoint()
	f.del(p)
	return nil
}

func verifRemoveAll(p string) error {
	f := verifFS
	if _, ok := f.nodes[p]; !ok {
		return nil
	}
	for _, c := range f.children(p) {
		f.crashPoint()
		f.del(c)
	}
	f.crashPoint()
	f.del(p)
	return nil
}

func verifRename(from, to string) error {
	f := verifFS
	n, ok := f.nodes[from]
	if !ok {
		return verifNotExist("rename", from)
	}
	f.crashPoint()
	kids := f.children(from)
	f.del(from)
	f.del(to)
	f.add(to, n)
	for _, c := range kids {
		cn := f.nodes[c]
		f.del(c)
		f.add(to+strings.TrimPrefix(c, from), cn)
	}
	return nil
}

func verifMkdirAll(p string, perm os.FileMode) error {
	f := verifFS
	if n, ok := f.nodes[p]; ok {
		if n.dir {
			return nil
		}
		return &fs.PathError{Op: "mkdir", Path: p, Err: fs.ErrExist}
	}
	if d := filepath.Dir(p); d != p && d != "/" && d != "." {
		if err := verifMkdirAll(d, perm); err != nil {
			return err
		}
	}
	f.crashPoint()
	f.add(p, &verifNode{dir: true})
	return nil
}

// verifWalk: filepath.Walk over the model (lexical order; entries removed while walking are
// reported to the callback with an error, as Walk does after a failed lstat).
func verifWalk(root string, fn filepath.WalkFunc) error {
	f := verifFS
	if _, ok := f.nodes[root]; !ok {
		return fn(root, nil, verifNotExist("lstat", root))
	}
	list := append([]string{root}, f.children(root)...)
	for _, p := range list {
		n, ok := f.nodes[p]
		var err error
		if !ok {
			err = fn(p, nil, verifNotExist("lstat", p))
		} else {
			err = fn(p, verifFileInfo{name: filepath.Base(p), size: int64(len(n.data)), dir: n.dir}, nil)
		}
		if err != nil {
			if err == filepath.SkipDir {
				if p == root {
					return nil
				}
				continue
			}
			return err
		}
	}
	return nil
}

// ---- time.Sleep inside the readers' wait-for-more-data loops ----

type verifStarve struct{}

var verifSleeps int

// verifStoreSleep: a reader that finds nothing new three times in a row gives the
// control back to the harness (which knows from its model whether data was due).
func verifStoreSleep(d time.Duration) {
	verifSleeps++
	if verifSleeps >= 3 {
		panic(verifStarve{})
	}
}

// verifTry runs one read step of a reader; starved = it went to sleep waiting for data.
func verifTry(f func() (int, error)) (n int, err error, starved bool) {
	verifSleeps = 0
	defer func() {
		if r := recover(); r != nil {
			if _, ok := r.(verifStarve); ok {
				starved = true
				return
			}
			panic(r)
		}
	}()
	n, err = f()
	return
}
