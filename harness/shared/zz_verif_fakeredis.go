package PKG

// fakeredis: the target as seen through client.Redis / common.CmdBatcher.
// It states Redis' documented behaviour for the handful of commands the code
// under test issues (DESIGN.md D9): per-database hashes and plain keys, the
// selected database of the connection, MULTI/EXEC applied atomically, and an
// ordered request log. Plain Go: executed symbolically by the engine and
// natively during replay.

import (
	"bufio"
	"errors"
	"strconv"
	"strings"

	"github.com/mgtv-tech/redis-GunYu/config"
	"github.com/mgtv-tech/redis-GunYu/pkg/redis/client/common"
)

type verifReq struct {
	db    int
	cmd   string
	args  []interface{}
	batch int // ordinal of the Exec()/Do() call that carried it
	txn   int // ordinal of the enclosing MULTI block, 0 = none
	tag   int // data item id when the harness tagged it, else -1
}

type verifHash struct {
	fields []string
	vals   []string
	hasTTL bool
	ttl    string
}

// verifObj is a non-hash key: how it was created/modified and its expiry.
type verifObj struct {
	key    string // "db|key"
	ops    []string
	hasTTL bool
	ttl    string
}

type verifZEntry struct {
	score  int64
	member string
}

type verifZSet struct {
	key     string // "db|key"
	entries []verifZEntry
}

type verifState struct {
	hashKeys []string // "db|key"
	hashes   []*verifHash
	objs     []*verifObj
	zsets    []*verifZSet
}

func (s *verifState) zset(db int, key string, create bool) *verifZSet {
	k := strconv.Itoa(db) + "|" + key
	for _, z := range s.zsets {
		if z.key == k {
			return z
		}
	}
	if !create {
		return nil
	}
	z := &verifZSet{key: k}
	s.zsets = append(s.zsets, z)
	return z
}

func (s *verifState) obj(db int, key string, create bool) *verifObj {
	k := strconv.Itoa(db) + "|" + key
	for _, o := range s.objs {
		if o.key == k {
			return o
		}
	}
	if !create {
		return nil
	}
	o := &verifObj{key: k}
	s.objs = append(s.objs, o)
	return o
}

func (s *verifState) delObj(db int, key string) bool {
	k := strconv.Itoa(db) + "|" + key
	for i, o := range s.objs {
		if o.key == k {
			s.objs = append(s.objs[:i], s.objs[i+1:]...)
			return true
		}
	}
	return false
}

func (s *verifState) hash(db int, key string, create bool) *verifHash {
	k := strconv.Itoa(db) + "|" + key
	for i, x := range s.hashKeys {
		if x == k {
			return s.hashes[i]
		}
	}
	if !create {
		return nil
	}
	h := &verifHash{}
	s.hashKeys = append(s.hashKeys, k)
	s.hashes = append(s.hashes, h)
	return h
}

func (s *verifState) delHash(db int, key string) {
	k := strconv.Itoa(db) + "|" + key
	for i, x := range s.hashKeys {
		if x == k {
			s.hashKeys = append(s.hashKeys[:i], s.hashKeys[i+1:]...)
			s.hashes = append(s.hashes[:i], s.hashes[i+1:]...)
			return
		}
	}
}

func (s *verifState) keysIn(db int) int {
	p := strconv.Itoa(db) + "|"
	n := 0
	for _, x := range s.hashKeys {
		if strings.HasPrefix(x, p) {
			n++
		}
	}
	for _, o := range s.objs {
		if strings.HasPrefix(o.key, p) {
			n++
		}
	}
	for _, z := range s.zsets {
		if strings.HasPrefix(z.key, p) && len(z.entries) > 0 {
			n++
		}
	}
	return n
}

func (h *verifHash) set(f, v string) {
	for i := range h.fields {
		if h.fields[i] == f {
			h.vals[i] = v
			return
		}
	}
	h.fields = append(h.fields, f)
	h.vals = append(h.vals, v)
}

func (h *verifHash) get(f string) (string, bool) {
	for i := range h.fields {
		if h.fields[i] == f {
			return h.vals[i], true
		}
	}
	return "", false
}

func (h *verifHash) del(f string) bool {
	for i := range h.fields {
		if h.fields[i] == f {
			h.fields = append(h.fields[:i], h.fields[i+1:]...)
			h.vals = append(h.vals[:i], h.vals[i+1:]...)
			return true
		}
	}
	return false
}

type verifFake struct {
	st      verifState
	log     []verifReq
	curDb   int
	batchN  int
	txnN    int
	inTxn   bool
	queued  []verifReq
	queuedI []int // log indexes of the queued requests
	maxDb   int
	pending []interface{} // replies of Send()s not yet Receive()d
	failAll bool          // connection broken: every request fails, nothing is applied
	crashAt int           // >= 0: requests beyond this many logged ones fail and are not applied
	tagOf   func(cmd string, args []interface{}) int
	onReq   func(n int) // called with the ordinal (1-based) of each incoming request before it is processed
	nReq    int
	// rejectAt > 0: exactly that request (1-based ordinal) is answered with an error reply and not
	// applied (OOM, READONLY, ...); the connection stays usable
	rejectAt int
	// moveBatch > 0: exactly that batch execution (1-based) is refused with a MOVED redirection
	// (nothing of it applied), as a cluster node answers for a slot it no longer owns
	moveBatch int
	batchRuns int
	keyspaceReverse bool // INFO keyspace lists the databases in descending order
	// moveBatchPartial: the refused batch is a cluster batch (no MULTI/EXEC on the wire): one command
	// is answered MOVED, the node executes all the others
	moveBatchPartial bool
	// holdReceive > 0: the replies of that batch execution (1-based) stay on the wire until
	// releaseReceive is closed (a slow but healthy target): Receive of that batch blocks meanwhile
	holdReceive    int
	releaseReceive chan struct{}
	// infoReplication: what INFO replication answers (a source node in the cmd harness)
	infoReplication string
	// badDump: the server cannot load RESTORE payloads (an older target that does not know the value
	// encoding): cluster.c restoreCommand answers "Bad data format" after the BUSYKEY test and before
	// anything is deleted or created
	badDump bool
	// timePasses: at least a millisecond passes between two requests: a key whose time to live is 1 ms
	// (the replay's rendering of "already past its expiry") is gone when the next request arrives
	timePasses bool
}

var verifErrReply = common.RedisError("OOM command not allowed when used memory > 'maxmemory'")

var verifErrConn = errors.New("fakeredis: connection lost")

func verifNewFake() *verifFake { return &verifFake{crashAt: -1, maxDb: 3} }

func verifArgStr(a interface{}) string {
	switch v := a.(type) {
	case string:
		return v
	case []byte:
		return string(v)
	case int:
		return strconv.Itoa(v)
	case int64:
		return strconv.FormatInt(v, 10)
	case uint32:
		return strconv.FormatUint(uint64(v), 10)
	case uint64:
		return strconv.FormatUint(v, 10)
	case int32:
		return strconv.FormatInt(int64(v), 10)
	}
	return "?"
}

// apply executes one request against the state and returns its reply.
func (f *verifFake) apply(r verifReq) interface{} {
	if f.timePasses {
		for i := 0; i < len(f.st.objs); {
			if o := f.st.objs[i]; o.hasTTL && o.ttl == "1" {
				f.st.objs = append(f.st.objs[:i], f.st.objs[i+1:]...)
				continue
			}
			i++
		}
		for i := 0; i < len(f.st.hashKeys); {
			if h := f.st.hashes[i]; h.hasTTL && h.ttl == "1" {
				f.st.hashKeys = append(f.st.hashKeys[:i], f.st.hashKeys[i+1:]...)
				f.st.hashes = append(f.st.hashes[:i], f.st.hashes[i+1:]...)
				continue
			}
			i++
		}
	}
	switch r.cmd {
	case "ping":
		return "PONG"
	case "hset":
		h := f.st.hash(r.db, verifArgStr(r.args[0]), true)
		n := int64(0)
		for i := 1; i+1 < len(r.args); i += 2 {
			if _, ok := h.get(verifArgStr(r.args[i])); !ok {
				n++
			}
			h.set(verifArgStr(r.args[i]), verifArgStr(r.args[i+1]))
		}
		return n
	case "hsetnx":
		h := f.st.hash(r.db, verifArgStr(r.args[0]), true)
		if _, ok := h.get(verifArgStr(r.args[1])); ok {
			return int64(0)
		}
		h.set(verifArgStr(r.args[1]), verifArgStr(r.args[2]))
		return int64(1)
	case "hget":
		h := f.st.hash(r.db, verifArgStr(r.args[0]), false)
		if h == nil {
			return nil
		}
		if v, ok := h.get(verifArgStr(r.args[1])); ok {
			return v
		}
		return nil
	case "hgetall":
		h := f.st.hash(r.db, verifArgStr(r.args[0]), false)
		out := []interface{}{}
		if h != nil {
			for i := range h.fields {
				out = append(out, h.fields[i], h.vals[i])
			}
		}
		return out
	case "hdel":
		h := f.st.hash(r.db, verifArgStr(r.args[0]), false)
		n := int64(0)
		if h != nil {
			for _, a := range r.args[1:] {
				if h.del(verifArgStr(a)) {
					n++
				}
			}
			if len(h.fields) == 0 {
				f.st.delHash(r.db, verifArgStr(r.args[0]))
			}
		}
		return n
	case "exists":
		if f.st.hash(r.db, verifArgStr(r.args[0]), false) != nil {
			return int64(1)
		}
		if f.st.obj(r.db, verifArgStr(r.args[0]), false) != nil {
			return int64(1)
		}
		return int64(0)
	case "del", "unlink":
		n := int64(0)
		for _, a := range r.args {
			k := verifArgStr(a)
			if f.st.hash(r.db, k, false) != nil {
				f.st.delHash(r.db, k)
				n++
			} else if f.st.delObj(r.db, k) {
				n++
			} else if z := f.st.zset(r.db, k, false); z != nil {
				for zi := range f.st.zsets {
					if f.st.zsets[zi] == z {
						f.st.zsets = append(f.st.zsets[:zi], f.st.zsets[zi+1:]...)
						break
					}
				}
				n++
			}
		}
		return n
	case "zadd":
		z := f.st.zset(r.db, verifArgStr(r.args[0]), true)
		n := int64(0)
		for i := 1; i+1 < len(r.args); i += 2 {
			sc, _ := strconv.ParseInt(verifArgStr(r.args[i]), 10, 64)
			m := verifArgStr(r.args[i+1])
			found := false
			for j := range z.entries {
				if z.entries[j].member == m {
					z.entries[j].score, found = sc, true
				}
			}
			if !found {
				// keep ordered by score (stable)
				pos := len(z.entries)
				for j := range z.entries {
					if z.entries[j].score > sc {
						pos = j
						break
					}
				}
				z.entries = append(z.entries, verifZEntry{})
				copy(z.entries[pos+1:], z.entries[pos:])
				z.entries[pos] = verifZEntry{sc, m}
				n++
			}
		}
		return n
	case "zrem":
		z := f.st.zset(r.db, verifArgStr(r.args[0]), false)
		n := int64(0)
		if z != nil {
			for _, a := range r.args[1:] {
				m := verifArgStr(a)
				for j := range z.entries {
					if z.entries[j].member == m {
						z.entries = append(z.entries[:j], z.entries[j+1:]...)
						n++
						break
					}
				}
			}
		}
		return n
	case "zrangebyscore":
		z := f.st.zset(r.db, verifArgStr(r.args[0]), false)
		out := []interface{}{}
		if z != nil {
			min, _ := strconv.ParseInt(verifArgStr(r.args[1]), 10, 64)
			for _, e := range z.entries {
				if e.score >= min { // max is "+inf" in every caller
					out = append(out, []byte(e.member))
				}
			}
		}
		return out
	case "restore":
		// RESTORE key ttl payload [REPLACE] ...  (D9)
		k := verifArgStr(r.args[0])
		replace := false
		for _, a := range r.args[3:] {
			if strings.EqualFold(verifArgStr(a), "replace") {
				replace = true
			}
		}
		exists := f.st.obj(r.db, k, false) != nil || f.st.hash(r.db, k, false) != nil
		if exists && !replace {
			return common.RedisError("BUSYKEY Target key name already exists.")
		}
		if f.badDump {
			return common.RedisError("ERR Bad data format")
		}
		f.st.delHash(r.db, k)
		f.st.delObj(r.db, k)
		o := f.st.obj(r.db, k, true)
		o.ops = []string{"restore " + verifArgStr(r.args[2])}
		if t := verifArgStr(r.args[1]); t != "0" {
			o.hasTTL, o.ttl = true, t
		}
		return "OK"
	case "pexpire", "expire":
		o := f.st.obj(r.db, verifArgStr(r.args[0]), false)
		if o == nil {
			if h := f.st.hash(r.db, verifArgStr(r.args[0]), false); h != nil {
				h.hasTTL, h.ttl = true, verifArgStr(r.args[1])
				return int64(1)
			}
			return int64(0)
		}
		o.hasTTL, o.ttl = true, verifArgStr(r.args[1])
		return int64(1)
	case "info":
		if len(r.args) > 0 && strings.ToLower(verifArgStr(r.args[0])) == "replication" {
			return f.infoReplication
		}
		// (a client that collects the databases into a map visits them in no particular order: the
		// listing order stands for that order - the engine iterates maps in insertion order)
		s := "# Keyspace\r\n"
		for i := 0; i <= f.maxDb; i++ {
			db := i
			if f.keyspaceReverse {
				db = f.maxDb - i
			}
			if n := f.st.keysIn(db); n > 0 {
				s += "db" + strconv.Itoa(db) + ":keys=" + strconv.Itoa(n) + ",expires=0,avg_ttl=0\r\n"
			}
		}
		return s
	default:
		// a data-modifying command on a plain key: remembered as an operation on it
		if len(r.args) > 0 {
			o := f.st.obj(r.db, verifArgStr(r.args[0]), true)
			op := r.cmd
			for _, a := range r.args[1:] {
				op += " " + verifArgStr(a)
			}
			o.ops = append(o.ops, op)
		}
		return "OK"
	}
}

// request processes one request as the server would and returns its reply.
func (f *verifFake) request(cmd string, args []interface{}) (interface{}, error) {
	f.nReq++
	if f.onReq != nil {
		f.onReq(f.nReq)
	}
	if f.failAll || (f.crashAt >= 0 && len(f.log) >= f.crashAt) {
		f.failAll = true
		return nil, verifErrConn
	}
	if f.rejectAt > 0 && f.nReq == f.rejectAt {
		return nil, verifErrReply
	}
	cmd = strings.ToLower(cmd)
	r := verifReq{db: f.curDb, cmd: cmd, args: args, batch: f.batchN, tag: -1}
	if f.tagOf != nil {
		r.tag = f.tagOf(cmd, args)
	}
	switch cmd {
	case "select":
		n, err := strconv.Atoi(verifArgStr(args[0]))
		if err != nil || n < 0 {
			return nil, common.RedisError("ERR invalid DB index")
		}
		if f.inTxn {
			r.txn = f.txnN
			f.log = append(f.log, r)
			f.queued = append(f.queued, r)
			f.queuedI = append(f.queuedI, len(f.log)-1)
			return "QUEUED", nil
		}
		f.log = append(f.log, r)
		f.curDb = n
		return "OK", nil
	case "multi":
		if f.inTxn {
			return common.RedisError("ERR MULTI calls can not be nested"), nil
		}
		f.txnN++
		r.txn = f.txnN
		f.inTxn = true
		f.queued, f.queuedI = nil, nil
		f.log = append(f.log, r)
		return "OK", nil
	case "exec":
		if !f.inTxn {
			return common.RedisError("ERR EXEC without MULTI"), nil
		}
		r.txn = f.txnN
		f.log = append(f.log, r)
		f.inTxn = false
		out := []interface{}{}
		for qi, q := range f.queued {
			if q.cmd == "select" {
				n, _ := strconv.Atoi(verifArgStr(q.args[0]))
				f.curDb = n
				out = append(out, "OK")
				continue
			}
			q.db = f.curDb
			f.log[f.queuedI[qi]].db = f.curDb // the DB it really executes in
			out = append(out, f.apply(q))
		}
		f.queued, f.queuedI = nil, nil
		return out, nil
	}
	if f.inTxn {
		r.txn = f.txnN
		f.log = append(f.log, r)
		f.queued = append(f.queued, r)
		f.queuedI = append(f.queuedI, len(f.log)-1)
		return "QUEUED", nil
	}
	f.log = append(f.log, r)
	return f.apply(r), nil
}

// ---- client.Redis ----

func (f *verifFake) Close() error { return nil }
func (f *verifFake) Do(cmd string, args ...interface{}) (interface{}, error) {
	f.batchN++
	rep, err := f.request(cmd, args)
	if err == nil && rep == nil {
		// the real connection reports a nil bulk / nil array reply as ErrNil (proto.Reader.ReadReply)
		return nil, common.ErrNil
	}
	return rep, err
}
func (f *verifFake) Send(cmd string, args ...interface{}) error {
	f.batchN++
	rep, err := f.request(cmd, args)
	if err != nil {
		if err == error(verifErrReply) {
			// an error reply arrives with the replies, not at send time
			f.pending = append(f.pending, err)
			return nil
		}
		return err
	}
	f.pending = append(f.pending, rep)
	return nil
}
func (f *verifFake) SendAndFlush(cmd string, args ...interface{}) error { return f.Send(cmd, args...) }
func (f *verifFake) Receive() (interface{}, error) {
	if len(f.pending) == 0 {
		return nil, verifErrConn
	}
	r := f.pending[0]
	f.pending = f.pending[1:]
	if e, ok := r.(common.RedisError); ok {
		return nil, e
	}
	if r == nil {
		return nil, common.ErrNil
	}
	return r, nil
}
func (f *verifFake) ReceiveString() (string, error) { return common.String(f.Receive()) }
func (f *verifFake) ReceiveBool() (bool, error)     { return common.Bool(f.Receive()) }
func (f *verifFake) BufioReader() *bufio.Reader     { return nil }
func (f *verifFake) BufioWriter() *bufio.Writer     { return nil }
func (f *verifFake) Flush() error                   { return nil }
func (f *verifFake) RedisType() config.RedisType    { return config.RedisTypeStandalone }
func (f *verifFake) Addresses() []string            { return []string{"fake:6379"} }
func (f *verifFake) IterateNodes(result func(string, interface{}, error), cmd string, args ...interface{}) {
}
func (f *verifFake) NewBatcher(pipeline bool) common.CmdBatcher { return &verifBatcher{f: f} }
func (f *verifFake) NewTxnBatcher() common.CmdBatcher           { return &verifBatcher{f: f, txn: true} }

type verifBatchCmd struct {
	cmd  string
	args []interface{}
}

type verifBatcher struct {
	f    *verifFake
	txn  bool // transaction batcher: wraps the queued commands in MULTI ... EXEC
	cmds []verifBatchCmd
	sent bool
	reps []interface{}
	err  error
	ord  int // ordinal of this batch execution
}

func (b *verifBatcher) Put(cmd string, args ...interface{}) error {
	b.cmds = append(b.cmds, verifBatchCmd{cmd, args})
	return nil
}
func (b *verifBatcher) Len() int { return len(b.cmds) }
func (b *verifBatcher) run() {
	b.f.batchRuns++
	b.ord = b.f.batchRuns
	if b.f.moveBatch > 0 && b.f.batchRuns == b.f.moveBatch {
		b.err = errors.Join(common.ErrMove, errors.New("MOVED 1 fake:6380"))
		if b.f.moveBatchPartial {
			b.f.batchN++
			moved := false
			for _, c := range b.cmds {
				lc := strings.ToLower(c.cmd)
				if lc == "multi" || lc == "exec" {
					continue
				}
				if !moved && lc == "set" {
					moved = true
					continue
				}
				b.f.request(c.cmd, c.args)
			}
		}
		b.cmds = nil
		return
	}
	b.f.batchN++
	if b.txn {
		cmds := append([]verifBatchCmd{{"multi", nil}}, b.cmds...)
		b.cmds = append(cmds, verifBatchCmd{"exec", nil})
	}
	for _, c := range b.cmds {
		rep, err := b.f.request(c.cmd, c.args)
		if err != nil {
			b.err = err
			break
		}
		if re, ok := rep.(common.RedisError); ok && b.err == nil {
			b.err = re
		}
		b.reps = append(b.reps, rep)
	}
	b.cmds = nil
}
func (b *verifBatcher) Exec() ([]interface{}, error) {
	b.run()
	return b.reps, b.err
}
func (b *verifBatcher) Dispatch() error {
	b.run()
	b.sent = true
	return b.err
}
func (b *verifBatcher) Receive() ([]interface{}, error) {
	if b.f.holdReceive > 0 && b.ord == b.f.holdReceive && b.f.releaseReceive != nil {
		<-b.f.releaseReceive
	}
	return b.reps, b.err
}

// verifStateAfter rebuilds the target a restarted process would find after a
// crash that let exactly the first p logged requests reach the server: requests
// of a MULTI block whose EXEC is not among them are discarded (D9).
func verifStateAfter(log []verifReq, p int) *verifFake {
	nf := verifNewFake()
	execSeen := map[int]bool{}
	for i := 0; i < p; i++ {
		if log[i].cmd == "exec" {
			execSeen[log[i].txn] = true
		}
	}
	db := 0
	for i := 0; i < p; i++ {
		r := log[i]
		if r.txn != 0 && !execSeen[r.txn] {
			continue
		}
		switch r.cmd {
		case "multi", "exec":
			continue
		case "select":
			n, _ := strconv.Atoi(verifArgStr(r.args[0]))
			db = n
			continue
		}
		r.db = db
		nf.apply(r)
	}
	return nf
}
