package syncer

// Bidirectional replay: C13 (no echo / no swallowing), C18 (single-slot units),
// C14 (sync mode: data and recovery record atomically; resume exactly at the
// last committed unit).

import (
	"bufio"
	"bytes"
	"context"
	"errors"
	"io"
	"strconv"
	"strings"

	"github.com/mgtv-tech/redis-GunYu/config"
	"github.com/mgtv-tech/redis-GunYu/pkg/digest"
	"github.com/mgtv-tech/redis-GunYu/pkg/redis/checkpoint"
	"github.com/mgtv-tech/redis-GunYu/pkg/redis/client"
	usync "github.com/mgtv-tech/redis-GunYu/pkg/sync"
)

func verifBisyncLink(fake *verifFake, cpName string, mode config.ReplayMode) *RedisOutput {
	cfg := RedisOutputConfig{InputName: "in-" + cpName, CheckpointName: cpName, RunId: "rid1", TargetDb: -1}
	cfg.BisyncEnabled = true
	cfg.CanTransaction = true
	cfg.EnableResumeFromBreakPoint = true
	cfg.ReplayMode = mode
	cfg.BatchCmdCount = 4
	ro := NewRedisOutput(cfg)
	ro.newRedisConn = func(context.Context) (client.Redis, error) { return fake, nil }
	return ro
}

// verifParseUnits runs the real replay-unit parser over a RESP stream.
func verifParseUnits(ro *RedisOutput, stream []byte, start int64) ([]*bisyncReplayUnit, error) {
	unitBuf := make(chan *bisyncReplayUnit, 16)
	rw := usync.NewWaitCloser(nil)
	err := ro.parseAofReplayUnits(rw, bufio.NewReaderSize(bytes.NewReader(stream), 32), start, unitBuf)
	rw.Close(nil)
	var units []*bisyncReplayUnit
	for u := range unitBuf {
		units = append(units, u)
	}
	return units, err
}

func verifRespOf(cmd string, args []interface{}) []byte {
	bs := [][]byte{[]byte(cmd)}
	for _, a := range args {
		bs = append(bs, []byte(verifArgStr(a)))
	}
	return verifResp(bs...)
}

// verifPropagate renders what a Redis master writes to its replication stream
// for the requests it executed (DESIGN.md 3.2): SET ... PX n becomes SET ... PXAT t,
// PEXPIRE/EXPIRE become PEXPIREAT, and any business command may be omitted as a
// no-op (chosen by the environment) - bookkeeping writes always have an effect.
func verifPropagate(log []verifReq, from int, omitBusiness bool) []byte {
	var out []byte
	for _, r := range log[from:] {
		args := r.args
		cmd := r.cmd
		switch cmd {
		case "exists", "hgetall", "hget", "info", "zrangebyscore", "select":
			continue // reads are not propagated; the stream carries its own SELECT, filtered out by the parser's DB logic
		case "set":
			if len(args) == 4 && strings.EqualFold(verifArgStr(args[2]), "px") {
				args = []interface{}{args[0], args[1], "PXAT", "1700000086400000"}
			}
		case "pexpire":
			cmd, args = "pexpireat", []interface{}{args[0], "1700000086400000"}
		}
		isBusiness := r.txn != 0 && len(args) > 0 && !isBisyncNamespaceKey(verifArgStr(args[0])) && cmd != "multi" && cmd != "exec"
		if isBusiness && omitBusiness && verifChoose("omit", 2) == 1 {
			continue
		}
		out = append(out, verifRespOf(cmd, args)...)
	}
	return out
}

type verifClientCmd struct {
	args [][]byte
}

// verifClientWrite returns one client write from a small template set with symbolic key/value bytes.
func verifClientWrite() [][]byte {
	key := func() []byte {
		switch verifChoose("keykind", 3) {
		case 0:
			return verifBytes("key", 2)
		case 1:
			// looks like bookkeeping but is not under a reserved prefix
			return []byte("x-redis-gunyu-bisync:cp:marker:{t0}")
		default:
			return append([]byte("user:"), verifBytes("key", 1)...)
		}
	}
	val := func() []byte {
		switch verifChoose("valkind", 4) {
		case 0:
			return verifBytes("val", 2)
		case 1:
			return []byte(`{"record_type":"","version":"x","run_id":"rid1","unit_seq":1}`) // a value that looks like a marker
		case 2:
			return []byte("redis-gunyu-bisync:cp:marker:{t0}") // a value (not a key) under a reserved prefix
		default:
			return []byte("redis-gunyu-checkpoint rotated")
		}
	}
	switch verifChoose("cmd", 4) {
	case 0:
		return [][]byte{[]byte("SET"), key(), val()}
	case 1:
		return [][]byte{[]byte("HSET"), key(), []byte("f"), val()}
	case 2:
		return [][]byte{[]byte("RPUSH"), key(), val()}
	default:
		return [][]byte{[]byte("DEL"), key()}
	}
}

// VerifC13Foreign: a command or transaction the tool did not write is never
// suppressed: exactly one unit with exactly those commands, in order.
func VerifC13Foreign() {
	ro := verifBisyncLink(verifNewFake(), "redis-gunyu-checkpoint-bisync:aa01", config.ReplayModeSync)
	txn := verifChoose("txn", 2) == 1
	n := 1
	if txn {
		n = verifRange("ncmds", 1, verifParam("NTXN", 2))
	}
	var cmds [][][]byte
	var stream []byte
	if txn {
		stream = append(stream, verifResp([]byte("MULTI"))...)
	}
	for i := 0; i < n; i++ {
		c := verifClientWrite()
		cmds = append(cmds, c)
		stream = append(stream, verifResp(c...)...)
	}
	if txn {
		stream = append(stream, verifResp([]byte("EXEC"))...)
	}
	units, err := verifParseUnits(ro, stream, 1000)
	verifAssert(err == nil || errors.Is(err, io.EOF), "C13.foreign.parser-error")
	verifObserve("units", int64(len(units)))
	verifAssert(len(units) == 1, "C13.foreign.suppressed-or-split")
	if len(units) != 1 {
		return
	}
	u := units[0]
	verifAssert(len(u.Commands) == n, "C13.foreign.command-count")
	for i := 0; i < n && i < len(u.Commands); i++ {
		g := u.Commands[i]
		ok := g.Cmd == strings.ToLower(string(cmds[i][0])) && len(g.Args) == len(cmds[i])-1
		for j := 0; ok && j < len(g.Args); j++ {
			ok = bytes.Equal(g.Args[j], cmds[i][j+1])
		}
		verifAssert(ok, "C13.foreign.command-altered")
	}
	verifAssert(u.EndOffset == 1000+int64(len(stream)) && u.StartOffset == 1000, "C13.foreign.unit-offsets")
	verifReach("foreign.done")
}

// VerifC13Echo: what link A->B writes to site B (mirrored transaction with
// marker, business commands and recovery record; frontier saves, journal GC,
// root checkpoint) reaches link B->A through B's replication stream - after the
// rewrites a master applies when propagating - and produces no replay unit there.
func VerifC13Echo() {
	verifClockNs = 1700000000000000000
	mode := []config.ReplayMode{config.ReplayModeSync, config.ReplayModePipeline, config.ReplayModeParallel}[verifChoose("mode", 3)]
	siteB := verifNewFake()
	ab := verifBisyncLink(siteB, "redis-gunyu-checkpoint-bisync:aa01", mode)
	// a client transaction at site A
	n := verifRange("ncmds", 1, verifParam("NTXN", 2))
	var stream []byte
	if n > 1 {
		stream = append(stream, verifResp([]byte("MULTI"))...)
	}
	for i := 0; i < n; i++ {
		// the business content is irrelevant for recognition: a small template set
		k := append([]byte("user:"), verifBytes("key", 1)...)
		if verifChoose("cmd", 2) == 0 {
			stream = append(stream, verifResp([]byte("SET"), k, verifBytes("val", 1))...)
		} else {
			stream = append(stream, verifResp([]byte("DEL"), k)...)
		}
	}
	if n > 1 {
		stream = append(stream, verifResp([]byte("EXEC"))...)
	}
	units, _ := verifParseUnits(ab, stream, 1000)
	verifAssume(len(units) == 1)
	mark := len(siteB.log)
	rec, _, err := ab.execBisyncUnit(siteB, "rid1", units[0], mode == config.ReplayModeSync)
	verifAssert(err == nil, "C13.echo.commit-error")
	if err != nil {
		return
	}
	// bookkeeping traffic of the same link outside transactions
	switch verifChoose("extra", 4) {
	case 1:
		fr := &checkpoint.BisyncFrontierSnapshot{Version: "v", RunID: "rid1", UnitSeq: 1, Offset: 1100, MTime: 1}
		checkpoint.SaveBisyncFrontierSnapshot(siteB, checkpoint.BisyncFrontierKey("redis-gunyu-checkpoint-bisync:aa01"), fr)
	case 2:
		checkpoint.DeleteBisyncCommitKeys(siteB, []string{rec.Key})
		siteB.request("zrem", []interface{}{checkpoint.BisyncCommitIndexKey("redis-gunyu-checkpoint-bisync:aa01", units[0].SlotTag), rec.Key})
	case 3:
		checkpoint.SetCheckpoint(siteB, &checkpoint.CheckpointInfo{Key: "redis-gunyu-checkpoint-bisync:aa01", RunId: "rid1", Version: "v", Offset: 1100})
		checkpoint.SaveBisyncNamespaceMode(siteB, "redis-gunyu-checkpoint-bisync:aa01", checkpoint.BisyncModeFromReplayMode(mode))
	}
	// B's replication stream as seen by the opposite link
	back := verifPropagate(siteB.log, mark, true)
	// ... followed, in the same stream, by what a client of site B writes itself: the
	// recognition of the tool's own traffic must not leak into what comes after it
	var tail [][][]byte
	tailTxn := false
	switch verifChoose("tail", 3) {
	case 1:
		tail = append(tail, [][]byte{[]byte("SET"), append([]byte("user:"), verifBytes("tkey", 1)...), verifBytes("tval", 1)})
	case 2:
		tailTxn = true
		tail = append(tail, [][]byte{[]byte("SET"), append([]byte("user:"), verifBytes("tkey", 1)...), verifBytes("tval", 1)},
			[][]byte{[]byte("DEL"), append([]byte("user:"), verifBytes("tkey", 1)...)})
	}
	if tailTxn {
		back = append(back, verifResp([]byte("MULTI"))...)
	}
	for _, c := range tail {
		back = append(back, verifResp(c...)...)
	}
	if tailTxn {
		back = append(back, verifResp([]byte("EXEC"))...)
	}
	ba := verifBisyncLink(verifNewFake(), "redis-gunyu-checkpoint-bisync:bb02", mode)
	echo, perr := verifParseUnits(ba, back, 5000)
	verifAssert(perr == nil || errors.Is(perr, io.EOF), "C13.echo.parser-error")
	verifObserve("echo", int64(len(echo)))
	if len(tail) == 0 {
		verifAssert(len(echo) == 0, "C13.echo.own-write-sent-back")
	} else {
		verifAssert(len(echo) <= 1, "C13.echo.own-write-sent-back")
		verifAssert(len(echo) >= 1, "C13.foreign.suppressed-after-own-traffic")
		if len(echo) == 1 {
			u := echo[0]
			verifAssert(len(u.Commands) == len(tail), "C13.foreign.command-count")
			for i := 0; i < len(tail) && i < len(u.Commands); i++ {
				g := u.Commands[i]
				ok := g.Cmd == strings.ToLower(string(tail[i][0])) && len(g.Args) == len(tail[i])-1
				for j := 0; ok && j < len(g.Args); j++ {
					ok = bytes.Equal(g.Args[j], tail[i][j+1])
				}
				verifAssert(ok, "C13.foreign.command-altered")
			}
		}
		verifCover(tailTxn, "echo.then-foreign-txn")
	}
	verifReach("echo.done")
}

// VerifC13EchoRdb: the snapshot phase. What link A->B writes to site B for one snapshot unit through
// the real execBisyncRdbUnit (marker with record type rdb, then DEL / the value's commands / PEXPIRE),
// rendered as B's replication stream (PX -> PXAT, PEXPIRE -> PEXPIREAT, any subset of the business
// commands omitted), yields no replay unit in the real parser of link B->A; a client write of site B
// behind it in the same stream comes through unaltered.
func VerifC13EchoRdb() {
	verifClockNs = 1700000000000000000
	mode := []config.ReplayMode{config.ReplayModeSync, config.ReplayModePipeline, config.ReplayModeParallel}[verifChoose("mode", 3)]
	siteB := verifNewFake()
	ab := verifBisyncLink(siteB, "redis-gunyu-checkpoint-bisync:aa01", mode)
	// a well-formed unit (slot, slot tag) from the link's own builder, its commands replaced by a
	// snapshot key's replay
	k := append([]byte("user:"), verifBytes("key", 1)...)
	units, _ := verifParseUnits(ab, verifResp([]byte("SET"), k, []byte("x")), 1000)
	verifAssume(len(units) == 1)
	u := units[0]
	var cmds []bisyncAofCommand
	if verifChoose("replace", 2) == 1 {
		cmds = append(cmds, bisyncAofCommand{Cmd: "del", Args: [][]byte{k}})
	}
	switch verifChoose("value", 3) {
	case 0:
		cmds = append(cmds, bisyncAofCommand{Cmd: "set", Args: [][]byte{k, verifBytes("val", 1)}})
	case 1:
		cmds = append(cmds, bisyncAofCommand{Cmd: "rpush", Args: [][]byte{k, verifBytes("val", 1)}},
			bisyncAofCommand{Cmd: "rpush", Args: [][]byte{k, verifBytes("val", 1)}})
	default:
		cmds = append(cmds, bisyncAofCommand{Cmd: "hset", Args: [][]byte{k, []byte("f"), verifBytes("val", 1)}})
	}
	if verifChoose("expiry", 2) == 1 {
		cmds = append(cmds, bisyncAofCommand{Cmd: "pexpire", Args: [][]byte{k, []byte("5000")}})
	}
	u.Commands = cmds
	u.Digest = bisyncDigest(cmds)
	mark := len(siteB.log)
	err := ab.execBisyncRdbUnit(siteB, "rid1", u)
	verifAssert(err == nil, "C13.echo.commit-error")
	if err != nil {
		return
	}
	back := verifPropagate(siteB.log, mark, true)
	hasTail := verifChoose("tail", 2) == 1
	var tail [][]byte
	if hasTail {
		tail = [][]byte{[]byte("SET"), append([]byte("user:"), verifBytes("tkey", 1)...), verifBytes("tval", 1)}
		back = append(back, verifResp(tail...)...)
	}
	ba := verifBisyncLink(verifNewFake(), "redis-gunyu-checkpoint-bisync:bb02", mode)
	echo, perr := verifParseUnits(ba, back, 5000)
	verifAssert(perr == nil || errors.Is(perr, io.EOF), "C13.echo.parser-error")
	if !hasTail {
		verifAssert(len(echo) == 0, "C13.echo.own-write-sent-back")
	} else {
		verifAssert(len(echo) <= 1, "C13.echo.own-write-sent-back")
		verifAssert(len(echo) >= 1, "C13.foreign.suppressed-after-own-traffic")
		if len(echo) == 1 {
			g := echo[0].Commands
			ok := len(g) == 1 && g[0].Cmd == "set" && len(g[0].Args) == 2 && bytes.Equal(g[0].Args[0], tail[1]) && bytes.Equal(g[0].Args[1], tail[2])
			verifAssert(ok, "C13.foreign.command-altered")
		}
	}
	verifReach("echo.rdb.done")
}

// VerifC13EchoLarge: a source transaction of ECHOLARGE (2100) commands - larger than any buffer or
// batching threshold a parser or sender may keep - committed by link A->B through the real
// execBisyncUnit and read back by link B->A's real parser from B's replication stream: no unit comes
// back, and a client write behind it does.
func VerifC13EchoLarge() {
	verifClockNs = 1700000000000000000
	mode := config.ReplayModeSync
	siteB := verifNewFake()
	ab := verifBisyncLink(siteB, "redis-gunyu-checkpoint-bisync:aa01", mode)
	n := verifParam("ECHOLARGE", 2100)
	sym := verifBytes("val", 1)
	var stream []byte
	stream = append(stream, verifResp([]byte("MULTI"))...)
	for i := 0; i < n; i++ {
		v := []byte("v")
		if i == n/2 {
			v = sym
		}
		stream = append(stream, verifResp([]byte("SET"), []byte("user:"+verifItoa(int64(i%7))), v)...)
	}
	stream = append(stream, verifResp([]byte("EXEC"))...)
	units, _ := verifParseUnits(ab, stream, 1000)
	verifAssert(len(units) == 1 && len(units[0].Commands) == n, "C13.foreign.command-count")
	if len(units) != 1 {
		return
	}
	mark := len(siteB.log)
	_, _, err := ab.execBisyncUnit(siteB, "rid1", units[0], true)
	verifAssert(err == nil, "C13.echo.commit-error")
	if err != nil {
		return
	}
	back := verifPropagate(siteB.log, mark, false)
	tail := [][]byte{[]byte("SET"), []byte("user:t"), verifBytes("tval", 1)}
	back = append(back, verifResp(tail...)...)
	ba := verifBisyncLink(verifNewFake(), "redis-gunyu-checkpoint-bisync:bb02", mode)
	echo, perr := verifParseUnits(ba, back, 5000)
	verifAssert(perr == nil || errors.Is(perr, io.EOF), "C13.echo.parser-error")
	verifAssert(len(echo) <= 1, "C13.echo.own-write-sent-back")
	verifAssert(len(echo) >= 1, "C13.foreign.suppressed-after-own-traffic")
	if len(echo) == 1 {
		g := echo[0].Commands
		verifAssert(len(g) == 1 && g[0].Cmd == "set" && len(g[0].Args) == 2 && bytes.Equal(g[0].Args[1], tail[2]), "C13.foreign.command-altered")
	}
	verifReach("echo.large.done")
}

// ---------------------------------------------------------------------------
// C18: cluster-mode units are single-slot or refused.

// verifRefSlot: HASH_SLOT per the cluster specification (DESIGN.md D1); the tag
// selection is the reference transcription, the checksum is the repository's
// CRC16 whose equality with CRC-16/XMODEM is decided in C11.
func verifRefSlot(key string) uint16 {
	s := -1
	for i := 0; i < len(key); i++ {
		if key[i] == '{' {
			s = i
			break
		}
	}
	tag := key
	if s >= 0 {
		e := -1
		for i := s + 1; i < len(key); i++ {
			if key[i] == '}' {
				e = i
				break
			}
		}
		if e >= 0 && e != s+1 {
			tag = key[s+1 : e]
		}
	}
	return digest.Crc16(tag) & 0x3fff
}

// verifRefSlotBitwise: the same with an independent bit-by-bit CRC-16/XMODEM (polynomial 0x1021,
// initial value 0, no reflection) instead of the repository's table - used on concrete keys, so that
// the C18 verdict on them does not lean on digest.Crc16 (branch-free: usable on symbolic bytes too)
func verifRefSlotBitwise(key string) uint16 {
	s := -1
	for i := 0; i < len(key); i++ {
		if key[i] == '{' {
			s = i
			break
		}
	}
	tag := key
	if s >= 0 {
		e := -1
		for i := s + 1; i < len(key); i++ {
			if key[i] == '}' {
				e = i
				break
			}
		}
		if e >= 0 && e != s+1 {
			tag = key[s+1 : e]
		}
	}
	crc := uint16(0)
	for i := 0; i < len(tag); i++ {
		crc ^= uint16(tag[i]) << 8
		for b := 0; b < 8; b++ {
			crc = (crc << 1) ^ (0x1021 & -(crc >> 15))
		}
	}
	return crc & 0x3fff
}

// VerifC18Builder: with a cluster target, a unit is built exactly when all keys
// of all its commands share one reference slot, and then carries that slot.
func VerifC18Builder() {
	// key layouts (the brace arrangement is chosen, the other bytes are symbolic ASCII non-brace
	// bytes; arbitrary brace/UTF-8 arrangements inside KeyToSlot itself are decided in C11)
	sym := func() byte {
		b := verifU8("kb")
		verifAssume(verifAnd(b != '{', b != '}'))
		return b
	}
	klen := verifParam("KLEN", 3)
	key := func() []byte {
		switch verifChoose("layout", klen) {
		case 0:
			return []byte{sym(), sym()}
		case 1:
			return []byte{sym(), '{', sym(), '}', sym()}
		case 2:
			return []byte{'{', '}', sym()}
		case 3:
			return []byte{sym(), '}', '{', sym(), '}'} // a closing brace left of the first tag
		case 4:
			return []byte{'{', sym(), '}', '{', sym(), '}'}
		default:
			return []byte{sym(), '{', sym(), sym()}
		}
	}
	n := verifRange("ncmds", 1, 2)
	var cmds []bisyncAofCommand
	var keys [][]byte
	for i := 0; i < n; i++ {
		switch verifChoose("tmpl", 3) {
		case 0:
			k := key()
			cmds = append(cmds, bisyncAofCommand{Cmd: "set", Args: [][]byte{k, []byte("v")}})
			keys = append(keys, k)
		case 1:
			k1, k2 := key(), key()
			cmds = append(cmds, bisyncAofCommand{Cmd: "rename", Args: [][]byte{k1, k2}})
			keys = append(keys, k1, k2)
		default:
			k1, k2 := key(), key()
			cmds = append(cmds, bisyncAofCommand{Cmd: "del", Args: [][]byte{k1, k2}})
			keys = append(keys, k1, k2)
		}
	}
	s0 := verifRefSlotBitwise(string(keys[0]))
	same := true
	for _, k := range keys[1:] {
		same = verifAnd(same, verifRefSlotBitwise(string(k)) == s0)
	}
	unit, err := buildBisyncReplayUnitWithMode(1, 0, 10, n > 1, nil, cmds, bisyncSlotMode{})
	verifObserve("built", verifB2I(err == nil))
	verifCover(verifAnd(same, len(keys) > 1), "c18.multi-key-same-slot")
	verifCover(!same, "c18.cross-slot")
	verifAssert(verifImplies(same, err == nil), "C18.same-slot-unit-refused")
	verifAssert(verifImplies(!same, err != nil), "C18.cross-slot-unit-built")
	if err == nil {
		verifAssert(unit.Slot == s0, "C18.unit-slot-differs-from-key-slot")
	}
}

// VerifC18Unresolvable: commands whose keys cannot be determined stop the replay
// before anything is built or sent.
func VerifC18Unresolvable() {
	var cmd bisyncAofCommand
	switch verifChoose("kind", 3) {
	case 0:
		cmd = bisyncAofCommand{Cmd: "frobnicate", Args: [][]byte{verifBytes("a", 2)}}
	case 1:
		cmd = bisyncAofCommand{Cmd: "eval", Args: [][]byte{[]byte("return 1"), []byte("0")}}
	default:
		cmd = bisyncAofCommand{Cmd: "sort", Args: [][]byte{verifBytes("a", 2), []byte("by"), []byte("w_*")}}
	}
	unit, err := buildBisyncReplayUnitWithMode(1, 0, 10, false, nil, []bisyncAofCommand{cmd}, bisyncSlotMode{})
	verifAssert(err != nil && unit == nil, "C18.unresolvable-command-replayed")
}

// VerifC18ControlKeys: the marker, the recovery record and the index key that
// the dispatched transaction carries hash to the unit's slot (real slot-tag table).
func VerifC18ControlKeys() {
	verifClockNs = 1700000000000000000
	// one path walks all cases: the real slot-tag table (16384 tags found by hashing ~10^5
	// candidates) is built once per process/path
	for _, bkey := range []string{"a", "user:{x}:1", "{}{b}", "k{a}{b}", "caf\xc3\xa9", "u{\xe4\xb8\xad}1", "\xff\x00\x80k"} {
		for _, mode := range []config.ReplayMode{config.ReplayModeSync, config.ReplayModeParallel} {
			f := verifNewFake()
			ro := verifBisyncLink(f, "redis-gunyu-checkpoint-bisync:aa01", mode)
			cmds := []bisyncAofCommand{{Cmd: "set", Args: [][]byte{[]byte(bkey), []byte("v")}}}
			unit, err := buildBisyncReplayUnitWithMode(1, 0, 10, false, nil, cmds, bisyncSlotMode{})
			verifAssert(err == nil, "C18.control.unit-build")
			if err != nil {
				return
			}
			verifAssert(unit.Slot == verifRefSlotBitwise(bkey), "C18.unit-slot-differs-from-key-slot")
			_, _, err = ro.execBisyncUnit(f, "rid1", unit, mode == config.ReplayModeSync)
			verifAssert(err == nil, "C18.control.commit-error")
			nkeys := 0
			for _, r := range f.log {
				if r.txn == 0 || r.cmd == "multi" || r.cmd == "exec" {
					continue
				}
				k := verifArgStr(r.args[0])
				nkeys++
				verifAssert(verifRefSlotBitwise(k) == unit.Slot, "C18.transaction-key-in-other-slot")
			}
			verifObserve("nkeys", int64(nkeys))
			verifAssert(nkeys >= 3, "C18.control.transaction-shape")
		}
	}
	verifReach("c18.control")
}

// VerifC18KeyPositions: the write commands that name more than one key (reference list transcribed
// from the Redis command reference: key positions in the argument vector) - a unit is built exactly
// when all of them hash to one slot; putting a foreign-slot key at any single key position gets the
// unit refused. Keys are concrete ({a}… and {b}… hash to different slots); what is decided is the
// key-position knowledge the builder relies on.
func VerifC18KeyPositions() {
	type ref struct {
		cmd  string
		args []string // "K" marks a key position
	}
	refs := []ref{
		{"rename", []string{"K", "K"}}, {"renamenx", []string{"K", "K"}}, {"copy", []string{"K", "K"}},
		{"smove", []string{"K", "K", "m"}}, {"rpoplpush", []string{"K", "K"}}, {"brpoplpush", []string{"K", "K", "0"}},
		{"lmove", []string{"K", "K", "LEFT", "RIGHT"}}, {"blmove", []string{"K", "K", "LEFT", "RIGHT", "0"}},
		{"zrangestore", []string{"K", "K", "0", "-1"}},
		{"sinterstore", []string{"K", "K", "K"}}, {"sunionstore", []string{"K", "K", "K"}}, {"sdiffstore", []string{"K", "K", "K"}},
		{"pfmerge", []string{"K", "K", "K"}}, {"bitop", []string{"AND", "K", "K", "K"}},
		{"mset", []string{"K", "v", "K", "v"}}, {"msetnx", []string{"K", "v", "K", "v"}},
		{"del", []string{"K", "K", "K"}}, {"unlink", []string{"K", "K"}},
		// keys located by options or counts
		{"sort", []string{"K", "STORE", "K"}}, {"sort", []string{"K", "LIMIT", "0", "5", "STORE", "K"}},
		// a repeated STORE clause: the last one is the destination (the first one's argument is in the unit's slot here)
		{"sort", []string{"K", "STORE", "{a}tmp", "STORE", "K"}},
		{"zunionstore", []string{"K", "2", "K", "K"}}, {"zinterstore", []string{"K", "2", "K", "K", "WEIGHTS", "1", "2"}},
		{"zdiffstore", []string{"K", "2", "K", "K"}},
		{"georadius", []string{"K", "1", "2", "3", "km", "STORE", "K"}},
		{"lmpop", []string{"2", "K", "K", "LEFT"}}, {"eval", []string{"return 1", "2", "K", "K", "arg"}},
	}
	r := refs[verifChoose("cmd", len(refs))]
	var kpos []int
	for i, a := range r.args {
		if a == "K" {
			kpos = append(kpos, i)
		}
	}
	foreign := verifChoose("foreignAt", len(kpos)+1) - 1 // -1: none
	args := make([][]byte, len(r.args))
	n := 0
	for i, a := range r.args {
		if a != "K" {
			args[i] = []byte(a)
			continue
		}
		tag := "{a}"
		if n == foreign {
			tag = "{b}"
		}
		args[i] = []byte(tag + strconv.Itoa(n))
		n++
	}
	verifAssume(verifRefSlot("{a}0") != verifRefSlot("{b}0"))
	unit, err := buildBisyncReplayUnitWithMode(1, 0, 10, false, nil, []bisyncAofCommand{{Cmd: r.cmd, Args: args}}, bisyncSlotMode{})
	verifObserve("built", verifB2I(err == nil))
	if foreign < 0 {
		verifAssert(err == nil && unit != nil && unit.Slot == verifRefSlot("{a}0"), "C18.same-slot-unit-refused")
	} else {
		verifAssert(err != nil, "C18.cross-slot-unit-built")
	}
	verifReach("c18.keypositions.done")
}
