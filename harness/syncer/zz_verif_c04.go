package syncer

// C04-H04b/c: snapshot replay under cancellation and target errors through the
// real SendRdb (parser goroutine, distributor, 1..2 replay workers, aggregation,
// checkpoint write).

import (
	"bufio"
	"bytes"
	"context"
	"encoding/binary"

	"github.com/mgtv-tech/redis-GunYu/pkg/digest"
	"github.com/mgtv-tech/redis-GunYu/pkg/redis/client"
	usync "github.com/mgtv-tech/redis-GunYu/pkg/sync"
)

type verifChanReader struct {
	data  []byte
	runId string
	left  int64
}

func (r *verifChanReader) Start(usync.WaitCloser) {}
func (r *verifChanReader) Left() int64            { return r.left }
func (r *verifChanReader) RunId() string          { return r.runId }
func (r *verifChanReader) Size() int64            { return int64(len(r.data)) }
func (r *verifChanReader) IoReader() *bufio.Reader {
	return bufio.NewReader(bytes.NewReader(r.data))
}
func (r *verifChanReader) IsAof() bool { return false }
func (r *verifChanReader) Close()      {}

// verifSnapshot: a valid checksummed RDB with nKeys string keys "s0", "s1", ...
func verifSnapshot(nKeys int) []byte {
	b := []byte("REDIS0011")
	b = append(b, 0xFE, 0)
	for i := 0; i < nKeys; i++ {
		b = append(b, 0, 2, 's', byte('0'+i), 1, 'v')
	}
	b = append(b, 0xFF)
	d := digest.New()
	d.Write(b)
	var c [8]byte
	binary.LittleEndian.PutUint64(c[:], d.Sum64())
	return append(b, c[:]...)
}

// verifSnapshotH: verifSnapshot plus a hash "h0" with two fields (replayed as two pipelined
// commands when RESTORE is disabled)
func verifSnapshotH(nKeys int) []byte {
	b := []byte("REDIS0011")
	b = append(b, 0xFE, 0)
	for i := 0; i < nKeys; i++ {
		b = append(b, 0, 2, 's', byte('0'+i), 1, 'v')
	}
	b = append(b, 4, 2, 'h', '0', 2, 1, 'a', 1, 'x', 1, 'b', 1, 'y')
	b = append(b, 0xFF)
	d := digest.New()
	d.Write(b)
	var c [8]byte
	binary.LittleEndian.PutUint64(c[:], d.Sum64())
	return append(b, c[:]...)
}

// verifSnapshotHF: verifSnapshotH preceded by a function library (opcode 0xF5), replayed to a version 7
// target as one FUNCTION RESTORE command
func verifSnapshotHF(nKeys int) []byte {
	b := []byte("REDIS0011")
	b = append(b, 0xF5, 3, 'l', 'i', 'b')
	b = append(b, 0xFE, 0)
	for i := 0; i < nKeys; i++ {
		b = append(b, 0, 2, 's', byte('0'+i), 1, 'v')
	}
	b = append(b, 4, 2, 'h', '0', 2, 1, 'a', 1, 'x', 1, 'b', 1, 'y')
	b = append(b, 0xFF)
	d := digest.New()
	d.Write(b)
	var c [8]byte
	binary.LittleEndian.PutUint64(c[:], d.Sum64())
	return append(b, c[:]...)
}

func verifRdbOutput(fake *verifFake, parallel int) *RedisOutput {
	cfg := RedisOutputConfig{InputName: "in", CheckpointName: "cp", RunId: "rid1", TargetDb: -1}
	cfg.EnableResumeFromBreakPoint = true
	cfg.ReplayRdbParallel = parallel
	cfg.ReplayRdbEnableRestore = false
	cfg.KeyExists = "replace"
	cfg.MaxProtoBulkLen = 1 << 20
	cfg.Stats.DisableLog = true
	ro := NewRedisOutput(cfg)
	ro.newRedisConn = func(context.Context) (client.Redis, error) { return fake, nil }
	return ro
}

func verifRdbOutcome(fake *verifFake, nKeys int, left int64) (allApplied bool, cpWritten bool) {
	applied := 0
	for i := 0; i < nKeys; i++ {
		if fake.st.obj(0, "s"+string(rune('0'+i)), false) != nil {
			applied++
		}
	}
	if h := fake.st.hash(0, "cp", false); h != nil {
		if _, ok := h.get("rid1_offset"); ok {
			cpWritten = true
		}
	}
	return applied == nKeys, cpWritten
}

// VerifC04Cancel: the replay is cancelled when the target receives its n-th
// request (any n), with 1 or 2 workers. The snapshot offset may be recorded
// only if every snapshot key has been applied, and an incomplete replay must
// be reported as an error.
func VerifC04Cancel() {
	nKeys := verifParam("NKEYS", 2)
	parallel := verifRange("parallel", 1, 2)
	fake := verifNewFake()
	ctx, cancel := context.WithCancel(context.Background())
	cancelAt := verifRange("cancelAt", 0, 2*nKeys+1)
	fake.onReq = func(n int) {
		if n == cancelAt {
			cancel()
		}
	}
	ro := verifRdbOutput(fake, parallel)
	rd := &verifChanReader{data: verifSnapshot(nKeys), runId: "rid1", left: 1000}
	err := ro.SendRdb(ctx, rd)
	cancel()
	all, cp := verifRdbOutcome(fake, nKeys, 1000)
	verifObserve("all", verifB2I(all))
	verifCover(!all, "cancel.incomplete")
	verifCover(all && cp, "cancel.complete")
	verifAssert(verifImplies(cp, all), "C04.cancel.checkpoint-after-incomplete-replay")
	verifAssert(verifImplies(!all, err != nil), "C04.cancel.incomplete-reported-as-success")
	verifAssert(verifImplies(err == nil, cp), "C04.cancel.success-without-checkpoint")
	verifReach("cancel.done")
}

// VerifC04TargetError: the target connection breaks at the n-th request, or the target answers
// exactly the n-th request with an error reply (and keeps working). The snapshot holds string
// keys and a two-field hash (two pipelined commands in one flush).
func VerifC04TargetError() {
	nKeys := verifParam("NKEYS", 2)
	parallel := verifRange("parallel", 1, 2)
	fake := verifNewFake()
	reject := verifChoose("fault", 2) == 1
	if reject {
		fake.rejectAt = verifRange("rejectAt", 1, 2*nKeys+5)
	} else {
		fake.crashAt = verifRange("failAt", 0, 2*nKeys)
	}
	ro := verifRdbOutput(fake, parallel)
	snap := verifSnapshotH(nKeys)
	withFn := verifChoose("functionLib", 2) == 1
	if withFn {
		// the snapshot also carries a function library; the target is a version 7 server
		snap = verifSnapshotHF(nKeys)
		ro.cfg.Redis.Version = "7.0"
	}
	rd := &verifChanReader{data: snap, runId: "rid1", left: 1000}
	err := ro.SendRdb(context.Background(), rd)
	all, cp := verifRdbOutcome(fake, nKeys, 1000)
	if withFn {
		fn := false
		for _, r := range fake.log {
			if r.cmd == "function" {
				fn = true
			}
		}
		all = all && fn
		verifCover(reject && !fn, "target-error.function-library-refused")
	}
	if h := fake.st.hash(0, "h0", false); h == nil {
		all = false
	} else {
		_, okA := h.get("a")
		_, okB := h.get("b")
		all = all && okA && okB
	}
	// (with two workers the order in which requests reach the target is a race: not observed for the differential)
	verifCover(reject && !all, "target-error.rejected-command")
	verifAssert(verifImplies(cp, all), "C04.target-error.checkpoint-after-incomplete-replay")
	verifAssert(verifImplies(!all, err != nil), "C04.target-error.incomplete-reported-as-success")
	verifReach("target-error.done")
}

// VerifC04DamagedThroughSendRdb: a truncated snapshot through the whole pipeline.
func VerifC04DamagedThroughSendRdb() {
	nKeys := 2
	snap := verifSnapshot(nKeys)
	cut := verifRange("cut", 9, len(snap)-1)
	fake := verifNewFake()
	ro := verifRdbOutput(fake, 1)
	rd := &verifChanReader{data: snap[:cut], runId: "rid1", left: 1000}
	err := ro.SendRdb(context.Background(), rd)
	_, cp := verifRdbOutcome(fake, nKeys, 1000)
	verifAssert(err != nil, "C04.truncated-snapshot-replay-succeeds")
	verifAssert(!cp, "C04.truncated-snapshot-checkpointed")
	verifReach("damaged.done")
}
