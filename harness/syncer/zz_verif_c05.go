package syncer

// C05 — the memory cache backend returns exactly the bytes written, at the
// offsets written. The harnesses drive the real MemoryChannel through its real
// writers (ingest loops fed by a harness source), open real readers, and
// compare what the readers deliver with an independent byte-per-offset model.

import (
	"context"
	"errors"
	"io"

	usync "github.com/mgtv-tech/redis-GunYu/pkg/sync"
)

// verifC05Src feeds a writer's ingest loop: fixed chunks of symbolic bytes;
// hook(i) runs before chunk i is handed over (i == len(chunks): before EOF).
// With hold set the source behaves like a live connection: after its chunks it
// blocks until it is closed (drained is closed when it gets there).
type verifC05Src struct {
	chunks  [][]byte
	i       int
	hook    func(i int)
	hold    bool
	drained chan struct{}
	release chan struct{}
	closed  bool
}

func verifC05LiveSrc(chunks [][]byte) *verifC05Src {
	return &verifC05Src{chunks: chunks, hold: true, drained: make(chan struct{}), release: make(chan struct{})}
}

func (s *verifC05Src) Read(p []byte) (int, error) {
	if s.hook != nil {
		s.hook(s.i)
	}
	if s.closed {
		return 0, io.EOF
	}
	if s.i >= len(s.chunks) {
		if s.hold {
			close(s.drained)
			<-s.release
		}
		return 0, io.EOF
	}
	n := copy(p, s.chunks[s.i])
	s.i++
	return n, nil
}

func (s *verifC05Src) Close() error {
	if !s.closed {
		s.closed = true
		if s.hold {
			close(s.release)
		}
	}
	return nil
}

// verifC05Base: the replication offset the cached stream starts at is arbitrary
func verifC05Base() int64 {
	b := verifI64("base")
	verifAssume(verifAnd(b >= 1, b <= 1<<40))
	return b
}

func verifC05Chan(logSize, maxSize int64) *MemoryChannel {
	mc := NewMemoryChannel(MemoryConf{InputId: "in", LogSize: logSize, MaxSize: maxSize}).(*MemoryChannel)
	mc.readBufSize = 16
	return mc
}

// verifC05Chunks: k chunks, each of a chosen length 1..cmax, symbolic content
func verifC05Chunks(name string, k, cmax int) (chunks [][]byte, all []byte) {
	for i := 0; i < k; i++ {
		n := verifRange(name+"len", 1, cmax)
		c := verifBytes(name, n)
		chunks = append(chunks, c)
		all = append(all, c...)
	}
	return
}

// verifC05Drain lets the reader's copy loop run until it has caught up with
// everything currently cached (its stop signal is already raised, so it does
// not wait for more), then collects what it delivered through the real pipe.
func verifC05Drain(rd ChannelReader) ([]byte, error) {
	mr := rd.(*MemoryReader)
	mr.stateMu.Lock()
	mr.started = true // what Start() records before it runs the copy loop
	mr.stateMu.Unlock()
	done := make(chan struct{})
	close(done)
	err := mr.copyFunc(done)
	mr.pipeW.Close()
	var out []byte
	buf := make([]byte, 8)
	for {
		n, rerr := mr.reader.Read(buf)
		out = append(out, buf[:n]...)
		if rerr != nil {
			break
		}
		if len(out) > 64 {
			break
		}
	}
	mr.Close()
	return out, err
}

// verifC05CheckAll: at one instant, for every offset in the window around the
// cached range: validity answer, reader creation and delivered bytes agree
// with the model (aof = source bytes from base; rdb = snapshot bytes).
type verifC05Model struct {
	runId   string
	base    int64
	aof     []byte // aof[i] is the source byte at offset base+i
	aofOn   bool   // an AOF writer was created
	rdbOn   bool
	rdbLeft int64
	rdbSize int64
	rdb     []byte // snapshot bytes received so far
	noGc    bool   // nothing may have been collected (MaxSize = 0)
}

func verifC05CheckAll(mc *MemoryChannel, m *verifC05Model) {
	right := m.base + int64(len(m.aof))
	l, r := mc.GetOffsetRange(m.runId)
	if m.aofOn {
		verifAssert(r == right, "C05.mem.range-right-is-not-last-written-offset")
		verifAssert(l <= r && l >= m.base, "C05.mem.range-left-outside-written")
		if m.noGc {
			verifAssert(l == m.base, "C05.mem.range-shrunk-without-collection")
		}
	}
	rl, rs := mc.GetRdb(m.runId)
	offered := rl != -1
	if offered {
		verifAssert(m.rdbOn && rl == m.rdbLeft && rs == m.rdbSize, "C05.mem.offers-unknown-snapshot")
	}
	if m.rdbOn && m.noGc {
		verifAssert(offered, "C05.mem.snapshot-withdrawn-without-collection")
	}
	for d := -1; d <= len(m.aof)+1; d++ {
		x := m.base + int64(d)
		valid := mc.IsValidOffset(Offset{RunId: m.runId, Offset: x})
		rd, err := mc.NewReader(Offset{RunId: m.runId, Offset: x})
		verifAssert(valid == (err == nil), "C05.mem.valid-offset-but-no-reader")
		if m.aofOn {
			verifAssert(verifImplies(verifAnd(l != -1, verifAnd(x >= l, x <= r)), valid), "C05.mem.offset-inside-reported-range-invalid")
		}
		if d > len(m.aof) {
			verifAssert(!valid, "C05.mem.offset-beyond-written-valid")
		}
		if d < 0 && !offered {
			verifAssert(!valid, "C05.mem.offset-before-cache-valid-without-snapshot")
		}
		if err != nil {
			continue
		}
		verifAssert(rd.RunId() == m.runId, "C05.mem.reader-runid")
		if rd.IsAof() {
			verifAssert(rd.Left() == x, "C05.mem.reader-left")
			got, _ := verifC05Drain(rd)
			want := m.aof[d:]
			verifAssert(len(got) == len(want), "C05.mem.aof-reader-length")
			for i := 0; i < len(got) && i < len(want); i++ {
				verifAssert(got[i] == want[i], "C05.mem.aof-reader-bytes")
			}
			verifReach("c05.aof-read")
		} else {
			// a snapshot reader: only offered snapshots, from their first byte
			verifAssert(offered, "C05.mem.snapshot-reader-for-unoffered-snapshot")
			verifAssert(rd.Left() == m.rdbLeft && rd.Size() == m.rdbSize, "C05.mem.snapshot-reader-meta")
			got, derr := verifC05Drain(rd)
			verifAssert(len(got) == len(m.rdb), "C05.mem.snapshot-reader-length")
			for i := 0; i < len(got) && i < len(m.rdb); i++ {
				verifAssert(got[i] == m.rdb[i], "C05.mem.snapshot-reader-bytes")
			}
			if int64(len(m.rdb)) == m.rdbSize {
				verifAssert(derr == nil, "C05.mem.complete-snapshot-read-fails")
			}
			verifReach("c05.rdb-read")
		}
	}
	// accounting: what the cache thinks it holds is what its segments hold
	var held int64
	mc.mux.RLock()
	for _, s := range mc.aofSegs {
		held += int64(s.blob.len())
	}
	if mc.rdb != nil {
		held += mc.rdb.bufferedSize()
	}
	total := mc.totalSize
	mc.mux.RUnlock()
	verifAssert(total == held, "C05.mem.size-accounting")
	if mc.maxSize > 0 {
		verifAssert(total <= mc.maxSize, "C05.mem.over-budget")
	}
}

// VerifC05MemHistory: one replication id; optional snapshot, then the log,
// both ingested by the real writers in chunks of chosen sizes with rotation at
// LOGSIZE and (optionally) collection at MAXSIZE; at every chunk boundary all
// offsets around the cached range are checked (verifC05CheckAll).
func VerifC05MemHistory() {
	L := int64(verifParam("LOGSIZE", 2))
	K := verifParam("CHUNKS", 3)
	C := verifParam("CHUNKMAX", 3)
	R := verifParam("RDBCHUNKS", 2)
	var M int64
	gc := verifChoose("gc", 2) == 1
	if gc {
		M = int64(verifParam("MAXSIZE", 5))
	}
	mc := verifC05Chan(L, M)
	m := &verifC05Model{runId: "r1", base: verifC05Base(), noGc: !gc}
	mc.SetRunId(m.runId)
	ctx := context.Background()

	if verifChoose("snapshot", 2) == 1 {
		chunks, all := verifC05Chunks("rdb", verifRange("rdbchunks", 1, R), C)
		m.rdbOn, m.rdbLeft, m.rdbSize = true, m.base, int64(len(all))
		src := &verifC05Src{chunks: chunks}
		src.hook = func(i int) {
			n := 0
			for _, c := range chunks[:i] {
				n += len(c)
			}
			m.rdb = all[:n]
			verifC05CheckAll(mc, m)
		}
		w, err := mc.NewRdbWriter(src, m.base, m.rdbSize)
		verifAssert(err == nil, "C05.mem.new-rdb-writer")
		w.Start()
		werr := w.Wait(ctx)
		verifAssert(werr == nil, "C05.mem.rdb-writer-error")
		m.rdb = all
		if gc {
			// a snapshot may have been (partly) collected while it was written; then it is no longer offered
			if rl, _ := mc.GetRdb(m.runId); rl == -1 {
				m.rdbOn = false
			}
		}
		verifC05CheckAll(mc, m)
		verifCover(true, "c05.snapshot-written")
	}

	chunks, all := verifC05Chunks("aof", K, C)
	src := &verifC05Src{chunks: chunks}
	src.hook = func(i int) {
		n := 0
		for _, c := range chunks[:i] {
			n += len(c)
		}
		m.aof = all[:n]
		if gc && m.rdbOn {
			if rl, _ := mc.GetRdb(m.runId); rl == -1 {
				m.rdbOn = false // collected: fine, as long as it is no longer offered (checked in CheckAll)
			}
		}
		verifC05CheckAll(mc, m)
	}
	w, err := mc.NewAofWritter(src, m.base)
	verifAssert(err == nil, "C05.mem.new-aof-writer")
	m.aofOn = true
	w.Start()
	werr := w.Wait(ctx)
	verifAssert(werr != nil && errors.Is(werr, io.EOF), "C05.mem.aof-writer-end")
	verifAssert(w.Right() == m.base+int64(len(all)), "C05.mem.writer-right")
	m.aof = all
	verifC05CheckAll(mc, m)
	verifReach("c05.history-end")
}

// VerifC05MemInvalidate: a reader opened in one cache epoch and still open
// when the cache is reset (new snapshot, replication-id delete/switch, close)
// never delivers bytes of the next epoch: whatever it delivers afterwards is a
// prefix of the first epoch's bytes from its offset. Writer replacement at the
// continuous offset is not a reset: the reader goes on into the new writer's bytes.
func VerifC05MemInvalidate() {
	L := int64(verifParam("LOGSIZE", 2))
	K := verifParam("CHUNKS", 2)
	C := verifParam("CHUNKMAX", 3)
	mc := verifC05Chan(L, 0)
	mc.SetRunId("r1")
	ctx := context.Background()
	base := verifC05Base()

	chunks1, all1 := verifC05Chunks("e1", K, C)
	src1 := verifC05LiveSrc(chunks1) // the first epoch's writer is still live when the reset comes
	w1, err := mc.NewAofWritter(src1, base)
	verifAssert(err == nil, "C05.mem.new-aof-writer")
	w1.Start()
	<-src1.drained

	d := verifRange("readerAt", 0, len(all1))
	x := base + int64(d)
	rd, err := mc.NewReader(Offset{RunId: "r1", Offset: x})
	verifAssert(err == nil, "C05.mem.valid-offset-but-no-reader")
	if err != nil {
		return
	}

	kind := verifChoose("reset", 4)
	base2 := base
	switch verifChoose("base2", 3) {
	case 1:
		base2 = base + int64(len(all1))
	case 2:
		base2 = base + 1
	}
	want := all1[d:]
	runId2 := "r1"
	switch kind {
	case 0: // a new snapshot replaces everything
		rchunks, rall := verifC05Chunks("rdb2", 1, C)
		rw, rerr := mc.NewRdbWriter(&verifC05Src{chunks: rchunks}, base2, int64(len(rall)))
		verifAssert(rerr == nil, "C05.mem.new-rdb-writer")
		rw.Start()
		rw.Wait(ctx)
	case 1: // the replication id is deleted and another one set
		mc.DelRunId("r1")
		mc.SetRunId("r2")
		runId2 = "r2"
	case 2: // the cache is closed and reused
		mc.Close()
		mc.SetRunId("r1")
	default: // writer replacement at the continuous offset: not a reset
		base2 = base + int64(len(all1))
	}
	chunks2, all2 := verifC05Chunks("e2", K, C)
	w2, err := mc.NewAofWritter(&verifC05Src{chunks: chunks2}, base2)
	verifAssert(err == nil, "C05.mem.new-aof-writer")
	if err != nil {
		return
	}
	w2.Start()
	w2.Wait(ctx)
	verifAssert(mc.RunId() == runId2, "C05.mem.runid")

	got, _ := verifC05Drain(rd)
	if kind == 3 {
		want = append(append([]byte{}, want...), all2...)
		verifAssert(len(got) == len(want), "C05.mem.reader-stops-at-writer-replacement")
	} else {
		verifAssert(len(got) <= len(want), "C05.mem.invalidated-reader-delivers-other-bytes")
	}
	for i := 0; i < len(got) && i < len(want); i++ {
		verifAssert(got[i] == want[i], "C05.mem.invalidated-reader-delivers-other-bytes")
	}
	verifCover(kind == 0, "c05.reset-by-snapshot")
	verifCover(kind == 3, "c05.writer-replaced")
	verifReach("c05.invalidate-end")
}

// VerifC05MemConcurrent: writer, reader and consumer really run concurrently (the real Start()
// goroutines of the writer's ingest loop and of the reader's copy loop; the consumer reads from the
// reader's pipe): under every explored interleaving the consumer receives exactly the bytes
// written from the reader's offset, in order, across rotation.
func VerifC05MemConcurrent() {
	L := int64(verifParam("LOGSIZE", 2))
	K := verifParam("CCHUNKS", 2)
	C := verifParam("CCHUNKMAX", 2)
	mc := verifC05Chan(L, 0)
	mc.SetRunId("r1")
	base := int64(100)
	chunks, all := verifC05Chunks("aof", K, C)
	w, err := mc.NewAofWritter(&verifC05Src{chunks: chunks}, base)
	verifAssert(err == nil, "C05.mem.new-aof-writer")
	rd, err := mc.NewReader(Offset{RunId: "r1", Offset: base})
	verifAssert(err == nil, "C05.mem.valid-offset-but-no-reader")
	if err != nil {
		return
	}
	wait := usync.NewWaitCloser(nil)
	rd.Start(wait)
	w.Start()
	got := make([]byte, len(all))
	n, rerr := io.ReadFull(rd.IoReader(), got)
	verifAssert(rerr == nil && n == len(all), "C05.mem.concurrent-reader-misses-bytes")
	for i := 0; i < n && i < len(all); i++ {
		verifAssert(got[i] == all[i], "C05.mem.concurrent-reader-bytes")
	}
	rd.Close()
	wait.Close(nil)
	verifReach("c05.concurrent-end")
}

// VerifC05MemEviction: as VerifC05MemConcurrent, with the cache at its size limit: EK chunks of a full
// segment each, at most two segments fit, so the writer can only go on by evicting segments the reader has
// left (it waits for the reader otherwise). A reader that is still open and whose position is still valid
// receives every byte - it is never left behind by a collection pass.
func VerifC05MemEviction() {
	// native replays: a reader that has just handed a segment back pauses (see the unit's native_rewrite), which
	// is where the engine's counterexamples preempt it
	verifPauseOn = true
	defer func() { verifPauseOn = false }()
	L := int64(verifParam("LOGSIZE", 2))
	K := verifParam("EK", 4)
	mc := verifC05Chan(L, 2*L)
	mc.SetRunId("r1")
	base := int64(100)
	var chunks [][]byte
	var all []byte
	for i := 0; i < K; i++ {
		c := verifBytes("aof", int(L))
		chunks = append(chunks, c)
		all = append(all, c...)
	}
	w, err := mc.NewAofWritter(&verifC05Src{chunks: chunks}, base)
	verifAssert(err == nil, "C05.mem.new-aof-writer")
	rd, err := mc.NewReader(Offset{RunId: "r1", Offset: base})
	verifAssert(err == nil, "C05.mem.valid-offset-but-no-reader")
	if err != nil {
		return
	}
	wait := usync.NewWaitCloser(nil)
	rd.Start(wait)
	w.Start()
	got := make([]byte, len(all))
	n, rerr := io.ReadFull(rd.IoReader(), got)
	verifAssert(rerr == nil && n == len(all), "C05.mem.eviction-leaves-open-reader-behind")
	for i := 0; i < n && i < len(all); i++ {
		verifAssert(got[i] == all[i], "C05.mem.concurrent-reader-bytes")
	}
	l, _ := mc.GetOffsetRange("r1")
	verifCover(l > base, "c05.eviction-happened")
	rd.Close()
	wait.Close(nil)
	verifReach("c05.eviction-end")
}

// VerifC05MemReplaceParked: the memory cache at its size limit with the oldest segment pinned by an
// open reader; the writer is parked for space inside a chunk (part of it stored). A replacement writer
// is then offered at the old writer's own position or at the cache's right edge: whether it is
// accepted or refused, the open reader afterwards delivers the history's bytes exactly once.
func VerifC05MemReplaceParked() {
	L := int64(verifParam("LOGSIZE", 2))
	mc := verifC05Chan(L, 2*L)
	mc.SetRunId("r1")
	base := int64(100)
	total := int(4 * L)
	truth := verifBytes("aof", total) // the history's bytes at base .. base+4L-1
	// one chunk that does not fit: 2L bytes fill the cache, the rest waits for space
	big := int(2*L) + verifRange("over", 1, int(L))
	w, err := mc.NewAofWritter(&verifC05Src{chunks: [][]byte{truth[:big]}}, base)
	verifAssert(err == nil, "C05.mem.new-aof-writer")
	rd, err := mc.NewReader(Offset{RunId: "r1", Offset: base})
	verifAssert(err == nil, "C05.mem.valid-offset-but-no-reader")
	if err != nil {
		return
	}
	w.Start()
	verifSettle()
	_, stored := mc.GetOffsetRange("r1")
	wr := w.Right()
	verifCover(wr != stored, "c05.parked.writer-position-lags")
	off := stored
	if verifChoose("at", 2) == 1 {
		off = wr
	}
	verifAssume(off >= base && off <= base+int64(big))
	w2, err2 := mc.NewAofWritter(&verifC05Src{chunks: [][]byte{truth[off-base:]}}, off)
	// (whether a writer inside the stored range is refused or merged is the cache's business; what counts
	// is what a reader is given afterwards)
	verifCover(err2 != nil, "c05.parked.refused")
	if err2 != nil {
		verifReach("c05.parked-end")
		return
	}
	wait := usync.NewWaitCloser(nil)
	rd.Start(wait)
	w2.Start()
	got := make([]byte, total)
	n, rerr := io.ReadFull(rd.IoReader(), got)
	verifAssert(rerr == nil && n == total, "C05.mem.eviction-leaves-open-reader-behind")
	for i := 0; i < n && i < total; i++ {
		verifAssert(got[i] == truth[i], "C05.mem.concurrent-reader-bytes")
	}
	rd.Close()
	wait.Close(nil)
	verifReach("c05.parked-end")
}
