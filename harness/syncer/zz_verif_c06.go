package syncer

// C06: what (*RedisInput).syncMeta decides on a (re)connection, against a model
// of the source's PSYNC admission rule (replication.c
// masterTryPartialResynchronization, DESIGN.md D8), an abstract cache and a
// stub output.

import (
	"github.com/mgtv-tech/redis-GunYu/pkg/redis/checkpoint"
	"github.com/mgtv-tech/redis-GunYu/pkg/redis/client"
	"bufio"
	"bytes"
	"context"
	"io"
	"strconv"
	"strings"

	"github.com/mgtv-tech/redis-GunYu/config"
	"github.com/mgtv-tech/redis-GunYu/pkg/log"
	"github.com/mgtv-tech/redis-GunYu/pkg/redis"
	"github.com/mgtv-tech/redis-GunYu/pkg/redis/client/common"
)

// ---- source ----

type verifSource struct {
	replid, replid2 string
	secondOff       int64 // second_replid_offset
	masterOff       int64 // master_repl_offset
	backlogOff      int64 // first offset held in the backlog
	histLen         int64

	psyncs     int
	reqId      string
	reqOff     int64 // offset as sent on the wire (replica's offset + 1)
	granted    bool
	replies    []string
	rdbSize    int64
	sink       bytes.Buffer
	rdbStream  *bufio.Reader
}

func (s *verifSource) admit(id string, off int64) bool {
	if !(id == s.replid || (id == s.replid2 && off <= s.secondOff)) {
		return false
	}
	return off >= s.backlogOff && off <= s.backlogOff+s.histLen
}

func (s *verifSource) Do(cmd string, args ...interface{}) (interface{}, error) {
	if strings.ToLower(cmd) == "info" {
		return "# Replication\r\nrole:master\r\nmaster_replid:" + s.replid + "\r\nmaster_replid2:" + s.replid2 + "\r\nmaster_repl_offset:1\r\n", nil
	}
	return nil, io.EOF
}
func (s *verifSource) Send(cmd string, args ...interface{}) error { return s.SendAndFlush(cmd, args...) }
func (s *verifSource) SendAndFlush(cmd string, args ...interface{}) error {
	if strings.ToLower(cmd) != "psync" {
		s.replies = append(s.replies, "OK")
		return nil
	}
	s.psyncs++
	s.reqId = args[0].(string)
	off, err := strconv.ParseInt(args[1].(string), 10, 64)
	if err != nil {
		return err
	}
	s.reqOff = off
	if s.reqId != "?" && s.admit(s.reqId, off) {
		s.granted = true
		s.replies = append(s.replies, "CONTINUE "+s.replid)
		return nil
	}
	s.granted = false
	s.replies = append(s.replies, "FULLRESYNC "+s.replid+" "+strconv.FormatInt(s.masterOff, 10))
	s.rdbStream = bufio.NewReader(bytes.NewReader([]byte("$" + strconv.FormatInt(s.rdbSize, 10) + "\r\n")))
	return nil
}
func (s *verifSource) Receive() (interface{}, error) { return s.ReceiveString() }
func (s *verifSource) ReceiveString() (string, error) {
	if len(s.replies) == 0 {
		// REPLCONF requests are written through BufioWriter; they are acknowledged with OK
		return "OK", nil
	}
	r := s.replies[0]
	s.replies = s.replies[1:]
	return r, nil
}
func (s *verifSource) ReceiveBool() (bool, error) { return false, nil }
func (s *verifSource) BufioReader() *bufio.Reader {
	if s.rdbStream != nil {
		return s.rdbStream
	}
	return bufio.NewReader(bytes.NewReader(nil))
}
func (s *verifSource) BufioWriter() *bufio.Writer                 { return bufio.NewWriter(&s.sink) }
func (s *verifSource) Close() error                                { return nil }
func (s *verifSource) Flush() error                                { return nil }
func (s *verifSource) RedisType() config.RedisType                 { return config.RedisTypeStandalone }
func (s *verifSource) Addresses() []string                         { return []string{"src"} }
func (s *verifSource) NewBatcher(bool) common.CmdBatcher           { return nil }
func (s *verifSource) NewTxnBatcher() common.CmdBatcher            { return nil }
func (s *verifSource) IterateNodes(func(string, interface{}, error), string, ...interface{}) {}

// ---- cache (abstract state, contract of C05) ----

type verifCache struct {
	runId          string // "" = empty
	left, right    int64  // log range held: [left, right]
	rdbLeft        int64  // -1 = no snapshot; snapshot reflects the dataset at rdbLeft
	rdbSize        int64
	cleared        bool
	setTo          string
}

func (c *verifCache) StartPoint(ids []string) (StartPoint, error) {
	sp := StartPoint{}
	sp.Initialize()
	for _, id := range ids {
		if id != "" && id == c.runId {
			return StartPoint{RunId: id, Offset: c.right}, nil
		}
	}
	return sp, nil
}
func (c *verifCache) SetRunId(id string) error { c.setTo = id; return nil }
func (c *verifCache) DelRunId(string) error    { c.cleared = true; return nil }
func (c *verifCache) RunId() string            { return c.runId }
func (c *verifCache) IsValidOffset(o Offset) bool {
	if o.RunId != c.runId || c.runId == "" {
		return false
	}
	if c.rdbLeft >= 0 && o.Offset <= c.rdbLeft {
		return true // replay starts from the cached snapshot
	}
	return o.Offset >= c.left && o.Offset <= c.right
}
func (c *verifCache) GetOffsetRange(id string) (int64, int64) {
	if id != c.runId {
		return -1, -1
	}
	return c.left, c.right
}
func (c *verifCache) GetRdb(id string) (int64, int64) {
	if id != c.runId || c.rdbLeft < 0 {
		return -1, -1
	}
	return c.rdbLeft, c.rdbSize
}
func (c *verifCache) NewRdbWriter(io.Reader, int64, int64) (RdbChannelWriter, error) { return nil, nil }
func (c *verifCache) NewAofWritter(io.Reader, int64) (AofChannelWriter, error)       { return nil, nil }
func (c *verifCache) NewReader(Offset) (ChannelReader, error)                         { return nil, nil }
func (c *verifCache) Close() error                                                    { return nil }

// ---- output ----

type verifOutputStub struct {
	sp    StartPoint
	setTo string
}

func (o *verifOutputStub) StartPoint(context.Context, []string) (StartPoint, error) { return o.sp, nil }
func (o *verifOutputStub) Send(context.Context, ChannelReader) error               { return nil }
func (o *verifOutputStub) SetRunId(_ context.Context, id string) error             { o.setTo = id; return nil }
func (o *verifOutputStub) Close()                                                  {}

func verifPickId(name string, id1, id2 string, noFailover bool) string {
	switch verifChoose(name, 4) {
	case 0:
		return id1
	case 1:
		// without a failover the source reports an all-zero previous id that nobody ever stored
		verifAssume(!noFailover)
		return id2
	case 2:
		return "zz-unknown-id"
	}
	return "?"
}

// VerifC06SyncMeta: every combination of source state, stored resume position and cache.
func VerifC06SyncMeta() {
	id1, id2 := "aa-current-id", "bb-previous-id"
	src := &verifSource{replid: id1, replid2: id2}
	if verifChoose("failover", 2) == 0 {
		// no failover known: replid2 is all zeros and never matches
		src.replid2 = "0000000000000000000000000000000000000000"
		id2 = src.replid2
	}
	noFailover := id2 != "bb-previous-id"
	src.secondOff = verifI64("secondOff")
	// the two quantities the source sends as decimal text are drawn from a few concrete values
	// (the engine keeps symbolic decimal renderings opaque and the code splits the reply text)
	src.masterOff = []int64{7, 5000, 1 << 33}[verifChoose("masterOff", 3)]
	src.rdbSize = []int64{3, 4096}[verifChoose("rdbSize", 2)]
	src.backlogOff = verifI64("backlogOff")
	src.histLen = verifI64("histLen")
	small := func(v int64) bool { return verifAnd(v >= 1, v < 1<<40) }
	verifAssume(small(src.secondOff))
	verifAssume(verifAnd(small(src.backlogOff), verifAnd(src.histLen >= 0, src.histLen < 1<<40)))
	// the backlog ends at the master offset
	verifAssume(src.backlogOff+src.histLen == src.masterOff+1)

	out := &verifOutputStub{}
	out.sp.RunId = verifPickId("outId", id1, id2, noFailover)
	out.sp.Offset = -1
	if out.sp.RunId != "?" {
		out.sp.Offset = verifI64("outOff")
		verifAssume(small(out.sp.Offset))
	}
	cache := &verifCache{rdbLeft: -1}
	switch verifChoose("cacheId", 4) {
	case 0:
		cache.runId = id1
	case 1:
		verifAssume(!noFailover)
		cache.runId = id2
	case 2:
		cache.runId = "cc-other-id"
	}
	if cache.runId != "" {
		cache.left, cache.right = verifI64("cacheLeft"), verifI64("cacheRight")
		verifAssume(verifAnd(small(cache.left), small(cache.right)))
		verifAssume(cache.left <= cache.right)
		if verifChoose("cacheRdb", 2) == 1 {
			cache.rdbLeft, cache.rdbSize = verifI64("cacheRdbLeft"), verifI64("cacheRdbSize")
			verifAssume(verifAnd(small(cache.rdbLeft), small(cache.rdbSize)))
			verifAssume(verifAnd(cache.rdbLeft <= cache.left, cache.rdbLeft+1 >= cache.left))
		}
	}
	outSp0 := out.sp
	// environment invariant (DESIGN.md C06): the leader re-keys the target's position to a new
	// replication id (SetRunId -> UpdateCheckpoint) before it caches any byte of that history, so a
	// cache holding data of the current id never coexists with a target position that still carries
	// the previous id beyond the point where the two histories agree
	if cache.runId == id1 && outSp0.RunId == id2 {
		verifAssume(outSp0.Offset <= src.secondOff-1)
	}

	ri := &RedisInput{inputAddr: "src", channel: cache, output: out, logger: log.WithLogger("[verif] ")}
	cli := redis.VerifNewStandalone(src)
	isFull, rdbSize, locSp, outSp, err := ri.syncMeta(context.Background(), cli)
	verifAssert(err == nil, "C06.syncmeta-error")
	if err != nil {
		return
	}
	verifAssert(src.psyncs == 1, "C06.exactly-one-psync")
	verifObserve("full", verifB2I(isFull))
	verifAssert(isFull == !src.granted, "C06.relies-on-partial-only-when-granted")

	if isFull {
		// a complete snapshot followed by the stream from the snapshot's offset
		verifReach("c06.full")
		verifAssert(cache.cleared, "C06.full.cache-not-cleared")
		verifAssert(locSp.Offset == src.masterOff, "C06.full.stream-not-appended-from-snapshot-offset")
		verifAssert(outSp.Offset == src.masterOff-rdbSize && rdbSize == src.rdbSize, "C06.full.reader-not-at-snapshot-start")
		verifAssert(cache.setTo == src.replid && out.setTo == src.replid, "C06.full.run-id")
		return
	}
	verifReach("c06.partial")
	// offset convention: the wire carries (last byte held) + 1, and appending resumes right there
	verifAssert(src.reqOff == locSp.Offset+1, "C06.partial.append-position-differs-from-requested")
	verifAssert(cache.setTo == src.replid && out.setTo == src.replid, "C06.partial.run-id")
	reuseSnapshot := outSp0.RunId == "?"
	if reuseSnapshot {
		// nothing on the target yet: replay the cached snapshot, then the cached log
		verifReach("c06.partial.cached-snapshot")
		verifAssert(!cache.cleared && cache.rdbLeft >= 0, "C06.snapshot-reuse.without-complete-snapshot")
		verifAssert(outSp.Offset == cache.rdbLeft-cache.rdbSize && rdbSize == cache.rdbSize, "C06.snapshot-reuse.reader-start")
		verifAssert(locSp.Offset == cache.right, "C06.snapshot-reuse.append-position")
		verifAssert(src.reqId == cache.runId, "C06.snapshot-reuse.history")
		return
	}
	// continuation exactly from the target's stored position, never later
	verifAssert(outSp.Offset == outSp0.Offset, "C06.partial.reader-not-at-stored-position")
	// the stored position itself must belong to the current history
	stale := verifAnd(outSp0.RunId == id2, outSp0.Offset > src.secondOff-1)
	verifAssert(verifAnd(outSp0.RunId == id1 || outSp0.RunId == id2, !stale), "C06.partial.continues-foreign-history/target-position")
	if cache.cleared {
		// the cache restarts at the stored position: the source must have been asked for exactly that
		verifAssert(locSp.Offset == outSp0.Offset && src.reqId == outSp0.RunId, "C06.partial.cleared-cache-restart-point")
	} else {
		// cached bytes are served: they must be valid for the stored position and belong to the current history
		verifAssert(cache.IsValidOffset(Offset{RunId: cache.runId, Offset: outSp0.Offset}), "C06.partial.gap-between-target-and-cache")
		verifAssert(locSp.Offset == cache.right && src.reqId == cache.runId, "C06.partial.psync-does-not-match-cache")
		verifAssert(cache.runId == id1 || cache.runId == id2, "C06.partial.continues-foreign-history/cache-id")
	}
}


// VerifC06Failover: the whole path of a (re)start after the source failed over, with the real output side:
// the target holds the resume position (A, T) written while the tool followed the old master. The new master
// reports [B, A] with switch offset S (its history equals A's below S only). Start-up does what
// syncer.newOutput does - checkpoint maintenance with the source's ids (checkpoint.UpdateCheckpoint, the body of
// syncer.updateCheckpoint), a RedisOutput under the current id - and then the real syncMeta (real StartPoint,
// GetCheckpoint, SetRunId) against the PSYNC admission model, with an empty cache. If the tool had got further
// than the new master when it was promoted (T >= S) its bytes S..T never existed in B's history: the only
// correct outcome is a snapshot; otherwise a continuation must start exactly at T.
func VerifC06Failover() {
	idB, idA := "aa-current-id", "bb-previous-id"
	src := &verifSource{replid: idB, replid2: idA}
	src.secondOff = verifI64("secondOff")
	src.masterOff = []int64{5000, 1 << 33}[verifChoose("masterOff", 2)]
	src.rdbSize = 3
	src.backlogOff = verifI64("backlogOff")
	src.histLen = verifI64("histLen")
	small := func(v int64) bool { return verifAnd(v >= 1, v < 1<<40) }
	verifAssume(small(src.secondOff))
	verifAssume(verifAnd(small(src.backlogOff), verifAnd(src.histLen >= 0, src.histLen < 1<<40)))
	verifAssume(src.backlogOff+src.histLen == src.masterOff+1)
	// the new master was promoted at S-1 and has only grown since
	verifAssume(src.secondOff-1 <= src.masterOff)
	T := verifI64("outOff")
	verifAssume(small(T))

	fake := verifNewFake()
	verifAssert(checkpoint.SetCheckpoint(fake, &checkpoint.CheckpointInfo{Key: "cp", RunId: idA, Version: "v", Offset: T}) == nil, "C06.failover.setup")
	fake.request("hset", []interface{}{config.CheckpointKeyHashKey, idA, "cp"}) // the index entry the previous start-up wrote
	// start-up maintenance with the ids the source reports (syncer.newOutput -> updateCheckpoint)
	verifAssert(checkpoint.UpdateCheckpoint(fake, "cp", []string{idB, idA}) == nil, "C06.failover.maintenance-error")
	ro := verifNewOutput(false, 1, fake)
	ro.cfg.RunId = idB
	ro.newRedisConn = func(context.Context) (client.Redis, error) { return fake, nil }
	cache := &verifCache{rdbLeft: -1}
	ri := &RedisInput{inputAddr: "src", channel: cache, output: ro, logger: log.WithLogger("[verif] ")}
	cli := redis.VerifNewStandalone(src)
	isFull, _, _, outSp, err := ri.syncMeta(context.Background(), cli)
	verifAssert(err == nil, "C06.failover.syncmeta-error")
	if err != nil {
		return
	}
	verifObserve("full", verifB2I(isFull))
	diverged := T > src.secondOff-1
	if verifConcBool(diverged) {
		verifReach("c06.failover.tool-was-ahead")
		verifAssert(isFull, "C06.failover.continues-in-diverged-history")
	} else if !isFull {
		verifReach("c06.failover.continued")
		verifAssert(outSp.Offset == T, "C06.failover.reader-not-at-stored-position")
	}
	verifReach("c06.failover.done")
}


// VerifC06FullSyncRetry: the source fails over while the tool runs (no restart in between): the output still
// works under the previous id A with the position (A, T), T at or beyond the switch offset. The first syncMeta
// is refused partial resynchronisation and starts a snapshot of the new history B at offset X (real SetRunId ->
// UpdateCheckpoint on the target). The snapshot replay does not complete (target error, stop); meanwhile the
// cache holds B's snapshot at X and B's log up to r. The tool reconnects: the second syncMeta must take a
// snapshot again or replay the complete cached snapshot from its start - it must not start reading B's log at
// an offset the target never reached in B's history.
func VerifC06FullSyncRetry() {
	idB, idA := "aa-current-id", "bb-previous-id"
	src := &verifSource{replid: idB, replid2: idA}
	src.secondOff = verifI64("secondOff")
	src.masterOff = 5000
	src.rdbSize = 3
	src.backlogOff = verifI64("backlogOff")
	src.histLen = verifI64("histLen")
	small := func(v int64) bool { return verifAnd(v >= 1, v < 1<<40) }
	verifAssume(small(src.secondOff))
	verifAssume(verifAnd(small(src.backlogOff), verifAnd(src.histLen >= 0, src.histLen < 1<<40)))
	verifAssume(src.backlogOff+src.histLen == src.masterOff+1)
	verifAssume(src.secondOff-1 <= src.masterOff)
	T := verifI64("outOff")
	verifAssume(small(T))
	verifAssume(T > src.secondOff-1) // the tool had got further than the promoted replica

	fake := verifNewFake()
	verifAssert(checkpoint.SetCheckpoint(fake, &checkpoint.CheckpointInfo{Key: "cp", RunId: idA, Version: "v", Offset: T}) == nil, "C06.retry.setup")
	fake.request("hset", []interface{}{config.CheckpointKeyHashKey, idA, "cp"})
	ro := verifNewOutput(false, 1, fake)
	ro.cfg.RunId = idA
	ro.newRedisConn = func(context.Context) (client.Redis, error) {
		fake.curDb = 0
		return fake, nil
	}
	cache := &verifCache{rdbLeft: -1}
	ri := &RedisInput{inputAddr: "src", channel: cache, output: ro, logger: log.WithLogger("[verif] ")}
	isFull, _, _, _, err := ri.syncMeta(context.Background(), redis.VerifNewStandalone(src))
	verifAssert(err == nil && isFull, "C06.retry.first-connection-not-a-snapshot")
	if err != nil || !isFull {
		return
	}
	// the data phase caches B's snapshot and some of its log; the replay to the target stops before the
	// snapshot's own position is recorded (C04: nothing names the snapshot offset yet)
	X := src.masterOff
	r := verifI64("cacheRight")
	verifAssume(verifAnd(r >= X, r < 1<<40))
	cache2 := &verifCache{runId: idB, rdbLeft: X, rdbSize: src.rdbSize, left: X, right: r}
	// the source has moved on
	src2 := &verifSource{replid: idB, replid2: idA, secondOff: src.secondOff, masterOff: 1 << 33, rdbSize: 3}
	src2.backlogOff = verifI64("backlogOff2")
	src2.histLen = verifI64("histLen2")
	verifAssume(verifAnd(small(src2.backlogOff), verifAnd(src2.histLen >= 0, src2.histLen < 1<<40)))
	verifAssume(src2.backlogOff+src2.histLen == src2.masterOff+1)
	verifAssume(r <= src2.masterOff)
	ri2 := &RedisInput{inputAddr: "src", channel: cache2, output: ro, logger: log.WithLogger("[verif] ")}
	isFull2, _, _, outSp2, err2 := ri2.syncMeta(context.Background(), redis.VerifNewStandalone(src2))
	verifAssert(err2 == nil, "C06.retry.syncmeta-error")
	if err2 != nil {
		return
	}
	if !isFull2 {
		// continuing is only legitimate as a replay of the complete cached snapshot from its start
		fromSnapshot := verifAnd(!cache2.cleared, outSp2.Offset <= cache2.rdbLeft)
		verifAssert(fromSnapshot, "C06.retry.continues-after-incomplete-snapshot")
	}
	verifCover(isFull2, "c06.retry.snapshot-again")
	verifReach("c06.retry.done")
}
