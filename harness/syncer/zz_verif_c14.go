package syncer

// C14-H14c: start-up recovery of the bidirectional frontier (pipeline/parallel
// mode) run twice with no traffic in between, with a crash at any request of the
// first recovery.

import (
	"context"
	"strconv"

	"github.com/mgtv-tech/redis-GunYu/config"
	"github.com/mgtv-tech/redis-GunYu/pkg/log"
	"github.com/mgtv-tech/redis-GunYu/pkg/redis/checkpoint"
	"github.com/mgtv-tech/redis-GunYu/pkg/redis/client"
)

// verifSlotTagStub replaces checkpoint.BisyncSlotTag under the engine (the real
// one hashes ~100k candidate tags once per process; its slot correctness is C11/C18).
func verifSlotTagStub(slot uint16) string { return strconv.Itoa(int(slot)) }

func verifBisyncOutput(fake *verifFake, mode config.ReplayMode) *RedisOutput {
	ro := &RedisOutput{}
	ro.cfg.InputName = "in"
	ro.cfg.CheckpointName = "cp"
	ro.cfg.RunId = "rid1"
	ro.cfg.BisyncEnabled = true
	ro.cfg.CanTransaction = true
	ro.cfg.EnableResumeFromBreakPoint = true
	ro.cfg.ReplayMode = mode
	ro.cfg.TargetDb = -1
	ro.bisyncOffset.Store(-1)
	ro.logger = log.WithLogger("[verif] ")
	ro.newRedisConn = func(context.Context) (client.Redis, error) { return fake, nil }
	return ro
}

func verifSeedBisyncState(f *verifFake, rootOff, snapSeq, snapOff int64, haveSnap bool, journal []int64, offs []int64) {
	f.request("hset", []interface{}{"cp", "rid1_runid", "rid1", "rid1_version", "v", "rid1_offset", strconv.FormatInt(rootOff, 10)})
	if haveSnap {
		fr := &checkpoint.BisyncFrontierSnapshot{Version: "v", RunID: "rid1", UnitSeq: snapSeq, Offset: snapOff, MTime: 5}
		args := append([]interface{}{checkpoint.BisyncFrontierKey("cp")}, fr.HashArgs()...)
		f.request("hset", args)
	}
	tag := checkpoint.BisyncSlotTag(0)
	for i, seq := range journal {
		key := checkpoint.BisyncCommitRecordKey("cp", tag, seq)
		rec := &checkpoint.BisyncCommitRecord{Key: key, RunID: "rid1", SyncerID: "s", UnitSeq: seq, StartOffset: offs[i] - 1, EndOffset: offs[i], Slot: 0, MTime: 7}
		f.request("hset", append([]interface{}{key}, rec.HashArgs()...))
		f.request("zadd", []interface{}{checkpoint.BisyncCommitIndexKey("cp", tag), strconv.FormatInt(seq, 10), key})
	}
}

// VerifC14RestartTwice: stopping and starting again with no traffic never moves
// the resume point backwards, whichever journal records survive and wherever the
// first recovery is interrupted.
func VerifC14RestartTwice() {
	haveSnap := verifChoose("snapshot", 2) == 1
	snapSeq := int64(0)
	snapOff := int64(0)
	if haveSnap {
		snapSeq = 2
		snapOff = verifI64("snapOff")
		verifAssume(verifAnd(snapOff >= 100, snapOff < 1<<40))
	}
	// any subset of the three sequence numbers following the snapshot survives as journal records
	var journal, offs []int64
	prev := snapOff
	for d := int64(1); d <= 3; d++ {
		o := verifI64("joff")
		verifAssume(verifAnd(o > prev, o < 1<<41))
		prev = o
		if verifChoose("present", 2) == 1 {
			journal = append(journal, snapSeq+d)
			offs = append(offs, o)
		}
	}
	rootOff := verifI64("rootOff")
	verifAssume(verifAnd(rootOff >= 0, rootOff < 1<<41))

	f := verifNewFake()
	verifSeedBisyncState(f, rootOff, snapSeq, snapOff, haveSnap, journal, offs)
	seedLog := append([]verifReq(nil), f.log...)

	// reference run on a copy: what one uninterrupted restart resumes from
	ref := verifStateAfter(seedLog, len(seedLog))
	spRef, _, okRef, errRef := verifBisyncOutput(ref, config.ReplayModeParallel).bisyncStartPoint(context.Background(), []string{"rid1"})
	verifAssert(errRef == nil, "C14.restart.error-or-gap-on-consistent-state")
	if errRef != nil || !okRef {
		return
	}
	// first restart, possibly interrupted after any number of its requests
	nSeed := len(f.log)
	crash := verifRange("crashAfter", 0, 12) // 0 = not interrupted
	if crash > 0 {
		f.crashAt = nSeed + crash - 1
	}
	sp1, _, ok1, err1 := verifBisyncOutput(f, config.ReplayModeParallel).bisyncStartPoint(context.Background(), []string{"rid1"})
	f.crashAt, f.failAll = -1, false
	if crash == 0 {
		verifAssert(err1 == nil && ok1 && sp1.Offset == spRef.Offset, "C14.restart.nondeterministic-first-start")
	}
	// second restart of a fresh process on whatever the first left behind
	sp2, _, ok2, err2 := verifBisyncOutput(f, config.ReplayModeParallel).bisyncStartPoint(context.Background(), []string{"rid1"})
	verifAssert(err2 == nil && ok2, "C14.restart.second-start-fails")
	if err2 != nil || !ok2 {
		return
	}
	verifObserve("back", verifB2I(sp2.Offset < spRef.Offset))
	verifAssert(sp2.Offset >= spRef.Offset, "C14.restart.resume-point-moved-backwards")
	verifCover(len(journal) > 0 && crash == 0, "restart.with-journals")
	verifReach("restart.done")
}

// VerifC14Coordinator: units 1..3 complete in any order; after each completion
// the coordinator may flush (save frontier, delete journals). For every crash
// prefix of the target's requests the real start-up recovery must resume at an
// offset before which every unit has been committed (none skipped).
func VerifC14Coordinator() { verifC14Coordinator(0) }

// VerifC14CoordinatorAfterResync: as VerifC14Coordinator, but the namespace still holds the frontier snapshot
// of an earlier run (sequence number 1..2 at an offset before the root checkpoint): a full resynchronisation has
// stored a newer root checkpoint, start-up takes the root override and numbers the new run's units from 1.
func VerifC14CoordinatorAfterResync() { verifC14Coordinator(1 + verifChoose("staleSeq", 2)) }

func verifC14Coordinator(staleSeq int) {
	verifClockNs = 1700000000000000000 // fixed clock: flushes are driven by the harness, not by elapsed time
	var offs [4]int64
	prev := int64(100)
	for k := 1; k <= 3; k++ {
		o := verifI64("uoff")
		verifAssume(verifAnd(o > prev, o < 1<<41))
		offs[k], prev = o, o
	}
	f := verifNewFake()
	// fresh namespace: root checkpoint at offset 100, no frontier yet
	f.request("hset", []interface{}{"cp", "rid1_runid", "rid1", "rid1_version", "v", "rid1_offset", "100"})
	if staleSeq > 0 {
		old := &checkpoint.BisyncFrontierSnapshot{Version: "v", RunID: "rid1", UnitSeq: int64(staleSeq), Offset: 50, MTime: 5}
		verifAssert(checkpoint.SaveBisyncFrontierSnapshot(f, checkpoint.BisyncFrontierKey("cp"), old) == nil, "C14.coordinator.setup")
		sp0, seq0, ok0, err0 := verifBisyncOutput(f, config.ReplayModeParallel).bisyncStartPoint(context.Background(), []string{"rid1"})
		verifAssert(err0 == nil && ok0 && sp0.Offset == 100 && seq0 == 0, "C14.coordinator.root-override-not-taken")
		verifCover(true, "coordinator.after-resync")
	}
	fc := newBisyncFrontierCoordinator(f, checkpoint.BisyncFrontierKey("cp"), "cp", "in", 0, 100, "rid1")
	tag := checkpoint.BisyncSlotTag(0)
	done := [4]bool{}
	commitReq := [4]int{} // index in the log of the EXEC that committed unit k
	for i := 0; i < 3; i++ {
		// next unit to complete: any not yet completed (lanes finish in any order)
		var cand []int
		for k := 1; k <= 3; k++ {
			if !done[k] {
				cand = append(cand, k)
			}
		}
		k := cand[verifChoose("complete", len(cand))]
		done[k] = true
		key := checkpoint.BisyncCommitRecordKey("cp", tag, int64(k))
		rec := &checkpoint.BisyncCommitRecord{Key: key, RunID: "rid1", SyncerID: "s", UnitSeq: int64(k), StartOffset: offs[k] - 1, EndOffset: offs[k], Slot: 0, MTime: 9}
		// the unit's data, its journal record and index entry become visible atomically
		f.request("multi", nil)
		f.request("set", []interface{}{"d" + strconv.Itoa(k), "v"})
		f.request("hset", append([]interface{}{key}, rec.HashArgs()...))
		f.request("zadd", []interface{}{checkpoint.BisyncCommitIndexKey("cp", tag), strconv.Itoa(k), key})
		f.request("exec", nil)
		commitReq[k] = len(f.log)
		err := fc.onCommitted(rec)
		verifAssert(err == nil, "C14.coordinator.error")
		if verifChoose("flush", 2) == 1 {
			verifAssert(fc.flush() == nil, "C14.coordinator.flush-error")
		}
		// the frontier's sequence number and offset describe the same unit: the next life numbers its
		// units from this pair and joins them with the journal by sequence number
		if q := fc.frontier.UnitSeq; q >= 1 && q <= 3 {
			verifAssert(fc.frontier.Offset == offs[q], "C14.coordinator.frontier-seq-and-offset-of-different-units")
		}
		// the in-memory frontier never passes a unit that has not completed
		for j := 1; j <= 3; j++ {
			if !done[j] {
				verifAssert(fc.frontier.UnitSeq < int64(j), "C14.coordinator.frontier-passes-missing-seq")
			}
		}
	}
	log := f.log
	for p := 1; p <= len(log); p++ {
		if staleSeq > 0 && p < 3 {
			continue // (the set-up requests)
		}
		nf := verifStateAfter(log, p)
		sp, seq, ok, err := verifBisyncOutput(nf, config.ReplayModeParallel).bisyncStartPoint(context.Background(), []string{"rid1"})
		verifAssert(err == nil && ok, "C14.coordinator.restart-fails")
		if err != nil || !ok {
			continue
		}
		if seq >= 1 && seq <= 3 {
			verifAssert(sp.Offset == offs[seq], "C14.coordinator.resume-seq-and-offset-of-different-units")
		} else {
			verifAssert(seq == 0 && sp.Offset == 100, "C14.coordinator.resume-seq-and-offset-of-different-units")
		}
		verifAssert(sp.Offset >= 100, "C14.coordinator.resume-before-seed")
		for k := 1; k <= 3; k++ {
			committed := commitReq[k] != 0 && commitReq[k] <= p
			if !committed {
				verifAssert(sp.Offset < offs[k], "C14.coordinator.resume-skips-uncommitted-unit")
			}
		}
		// the resume point ends a committed unit (or is the seed position)
		isEnd := sp.Offset == 100
		for k := 1; k <= 3; k++ {
			isEnd = verifOr(isEnd, verifAnd(sp.Offset == offs[k], commitReq[k] != 0 && commitReq[k] <= p))
		}
		verifAssert(isEnd, "C14.coordinator.resume-not-a-unit-boundary")
	}
	verifReach("coordinator.done")
}

// VerifC14Sync: sync mode - each unit's data and its recovery record become
// visible atomically, and after a stop at any request the next start resumes
// exactly after the last committed unit (nothing skipped, nothing applied twice).
func VerifC14Sync() {
	verifClockNs = 1700000000000000000
	f := verifNewFake()
	cp := "redis-gunyu-checkpoint-bisync:aa01"
	f.request("hset", []interface{}{cp, "rid1_runid", "rid1", "rid1_version", "v", "rid1_offset", "100"})
	ro := verifBisyncOutput(f, config.ReplayModeSync)
	ro.cfg.CheckpointName = cp
	nUnits := verifParam("NUNITS", 2)
	var ends []int64
	var execAt []int
	prev := int64(100)
	for k := 1; k <= nUnits; k++ {
		end := verifI64("uend")
		verifAssume(verifAnd(end > prev, end < 1<<41))
		cmds := []bisyncAofCommand{{Cmd: "set", Args: [][]byte{[]byte("k" + strconv.Itoa(k)), []byte("v")}, EndOffset: end}}
		if verifChoose("two", 2) == 1 {
			cmds = append(cmds, bisyncAofCommand{Cmd: "set", Args: [][]byte{[]byte("j" + strconv.Itoa(k)), []byte("w")}, EndOffset: end})
		}
		unit, err := buildBisyncReplayUnitWithMode(int64(k), prev, end, len(cmds) > 1, nil, cmds, ro.bisyncSlotMode())
		verifAssert(err == nil, "C14.sync.unit-build")
		if err != nil {
			return
		}
		_, _, err = ro.execBisyncUnit(f, "rid1", unit, true)
		verifAssert(err == nil, "C14.sync.commit-error")
		ends = append(ends, end)
		execAt = append(execAt, len(f.log))
		prev = end
	}
	log := f.log
	for p := 1; p <= len(log); p++ {
		nf := verifStateAfter(log, p)
		// atomicity: a unit's data is present iff its recovery record is
		for k := 1; k <= nUnits; k++ {
			data := nf.st.obj(0, "k"+strconv.Itoa(k), false) != nil
			committed := execAt[k-1] <= p
			verifAssert(data == committed, "C14.sync.data-without-record-or-vice-versa")
		}
		r2 := verifBisyncOutput(nf, config.ReplayModeSync)
		r2.cfg.CheckpointName = cp
		sp, seq, ok, err := r2.bisyncStartPoint(context.Background(), []string{"rid1"})
		verifAssert(err == nil && ok, "C14.sync.restart-fails")
		if err != nil || !ok {
			continue
		}
		want, wantSeq := int64(100), int64(0)
		for k := 1; k <= nUnits; k++ {
			if execAt[k-1] <= p {
				want, wantSeq = ends[k-1], int64(k)
			}
		}
		verifAssert(sp.Offset == want, "C14.sync.resume-not-exactly-last-committed-unit")
		verifAssert(seq == wantSeq, "C14.sync.resume-seq")
	}
	verifReach("sync.done")
}


// VerifC14LatestRecord (sync mode, several recovery slots): each slot keeps one "latest" record. Units are
// committed one at a time in stream order, so the resume point is the record with the greatest end offset
// (unit numbering restarts after a root-checkpoint override and says nothing across slots); of two records with
// the same end offset the later written one. The real LoadBisyncLatestStartRecord over 3 slots, any subset
// of them holding a record with symbolic sequence number, end offset and write time.
func VerifC14LatestRecord() {
	f := verifNewFake()
	name := "redis-gunyu-checkpoint-bisync:aa01"
	slots := []uint16{1, 2, 3}
	var recs []*checkpoint.BisyncCommitRecord
	for _, slot := range slots {
		if verifChoose("present", 2) == 0 {
			continue
		}
		r := &checkpoint.BisyncCommitRecord{RecordType: "latest", Version: "v", RunID: "rid1", SyncerID: "in", Slot: slot}
		r.Key = checkpoint.BisyncLatestCheckpointKey(name, checkpoint.BisyncSlotTag(slot))
		r.UnitSeq = verifI64("seq")
		r.EndOffset = verifI64("off")
		r.MTime = verifI64("mtime")
		verifAssume(verifAnd(r.UnitSeq >= 1, r.UnitSeq <= 8))
		verifAssume(verifAnd(r.EndOffset >= 1, r.EndOffset < 1<<40))
		verifAssume(verifAnd(r.MTime >= 1, r.MTime < 1<<40))
		r.StartOffset = r.EndOffset - 1
		f.request("hset", append([]interface{}{r.Key}, r.HashArgs()...))
		recs = append(recs, r)
	}
	best, cnt, err := checkpoint.LoadBisyncLatestStartRecord(f, name, slots, []string{"rid1"})
	verifAssert(err == nil, "C14.latest.error")
	if err != nil {
		return
	}
	verifAssert(cnt == len(recs), "C14.latest.count")
	if len(recs) == 0 {
		verifAssert(best == nil, "C14.latest.invented-record")
		return
	}
	verifAssert(best != nil, "C14.latest.record-lost")
	if best == nil {
		return
	}
	for _, r := range recs {
		verifAssert(best.EndOffset >= r.EndOffset, "C14.latest.resume-behind-a-committed-unit")
		verifAssert(verifImplies(best.EndOffset == r.EndOffset, best.MTime >= r.MTime), "C14.latest.older-duplicate-wins")
	}
	verifCover(len(recs) >= 2, "c14.latest.several-slots")
	verifReach("c14.latest.done")
}
