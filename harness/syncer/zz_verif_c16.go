package syncer

// C16 — a follower's cache is a faithful copy of the leader's stream. The real
// ReplicaLeader.Handle/sendData and the real ReplicaFollower.Run state machine
// (handshake, preSync, metaSync, rdbSync, aofSync) talk to each other over an
// in-process stand-in for the gRPC stream; both ends own a real MemoryChannel.

import (
	"context"
	"errors"
	"io"

	"google.golang.org/grpc"

	pb "github.com/mgtv-tech/redis-GunYu/pkg/api/golang"
	"github.com/mgtv-tech/redis-GunYu/pkg/cluster"
	"github.com/mgtv-tech/redis-GunYu/pkg/log"
	usync "github.com/mgtv-tech/redis-GunYu/pkg/sync"
)

// one Sync call: the leader's Handle runs in its own goroutine and hands its
// responses to the follower one by one (unbuffered: lock-step like a flow-controlled stream)
type verifC16Link struct {
	grpc.ServerStream
	ch    chan *pb.SyncResponse
	done  chan struct{} // the leader's handler returned
	gone  chan struct{} // the follower side went away (transfer interrupted)
	herr  error
	cutAt int // the stream breaks when the follower asks for message number cutAt (-1: never)
	n     int
	sent  []*pb.SyncResponse
}

func (l *verifC16Link) Send(r *pb.SyncResponse) error {
	select {
	case <-l.gone:
		return errors.New("rpc error: transport is closing")
	default:
	}
	select {
	case l.ch <- r:
		l.sent = append(l.sent, r)
		if r.GetCode() == pb.SyncResponse_META && r.GetMeta().GetAof() && verifC16Leader != nil {
			// the leader's source delivers one more chunk while this transfer is running
			verifC16Leader.fire()
		}
		return nil
	case <-l.gone:
		return errors.New("rpc error: transport is closing")
	}
}

func (l *verifC16Link) Context() context.Context { return context.Background() }

type verifC16ClientStream struct {
	grpc.ClientStream
	l *verifC16Link
}

func (s *verifC16ClientStream) Recv() (*pb.SyncResponse, error) {
	l := s.l
	if l.cutAt >= 0 && l.n >= l.cutAt {
		select {
		case <-l.gone:
		default:
			close(l.gone)
		}
		return nil, errors.New("rpc error: connection reset")
	}
	select {
	case r := <-l.ch:
		l.n++
		return r, nil
	case <-l.done:
		return nil, io.EOF
	}
}

type verifC16Client struct {
	// failover: the leader's source changes its replication id (r0 -> r1, same history continued)
	// after the follower's handshake and before its next call
	failover func()
	leader   *ReplicaLeader
	wait     usync.WaitCloser
	follower *ReplicaFollower
	links    []*verifC16Link
	cutCall  int
	cutAt    int
	maxCalls int
}

func (c *verifC16Client) Sync(ctx context.Context, in *pb.SyncRequest, opts ...grpc.CallOption) (pb.ApiService_SyncClient, error) {
	if len(c.links) >= c.maxCalls {
		// bound of the exploration: the follower process is stopped here
		c.follower.wait.Close(nil)
		return nil, errors.New("rpc error: follower stopped")
	}
	if len(c.links) == 1 && c.failover != nil {
		c.failover()
		c.failover = nil
	}
	l := &verifC16Link{ch: make(chan *pb.SyncResponse), done: make(chan struct{}), gone: make(chan struct{}), cutAt: -1}
	if len(c.links) == c.cutCall {
		l.cutAt = c.cutAt
	}
	c.links = append(c.links, l)
	go func() {
		l.herr = c.leader.Handle(c.wait, in, l)
		close(l.done)
	}()
	return &verifC16ClientStream{l: l}, nil
}

var verifC16Cli *verifC16Client
var verifC16Sleeps, verifC16MaxSleeps int

type verifC16Conn struct{}

func (*verifC16Conn) Close() error { return nil }

func verifC16Dial(rf *ReplicaFollower) (*verifC16Conn, error) { return &verifC16Conn{}, nil }

func verifC16NewClient(*verifC16Conn) pb.ApiServiceClient { return verifC16Cli }

// verifC16Sleep replaces the follower's back-off sleeps: no time passes; after the
// configured number of back-offs the follower process is stopped (bound of the exploration).
func verifC16Sleep(w usync.WaitCloser, d interface{}) {
	verifC16Sleeps++
	if verifC16Sleeps >= verifC16MaxSleeps {
		w.Close(nil)
	}
}

type verifC16Input struct{ ids []string }

func (i *verifC16Input) Id() string                             { return "in" }
func (i *verifC16Input) Run() error                             { return nil }
func (i *verifC16Input) Stop() error                            { return nil }
func (i *verifC16Input) SetOutput(output Output)                {}
func (i *verifC16Input) SetChannel(ch Channel)                  {}
func (i *verifC16Input) StateNotify(SyncState) usync.WaitChannel { return nil }
func (i *verifC16Input) RunIds() []string                       { return i.ids }

// verifC16LiveSrc: the leader's source connection: the initial chunks, then (once the first log
// transfer to a follower has been announced) one more chunk, then the connection ends.
type verifC16LiveSrc struct {
	chunks  [][]byte
	i       int
	extra   []byte
	drained chan struct{}
	trigger chan struct{}
	fired   bool
	state   int
}

func (s *verifC16LiveSrc) Read(p []byte) (int, error) {
	if s.i < len(s.chunks) {
		n := copy(p, s.chunks[s.i])
		s.i++
		return n, nil
	}
	switch s.state {
	case 0:
		s.state = 1
		close(s.drained)
		<-s.trigger
		return copy(p, s.extra), nil
	}
	return 0, io.EOF
}

func (s *verifC16LiveSrc) fire() {
	if !s.fired {
		s.fired = true
		close(s.trigger)
	}
}

var verifC16Leader *verifC16LiveSrc

// verifC16Fill writes a log [base, base+len) into a cache through its real writer (which ends).
func verifC16Fill(mc *MemoryChannel, base int64, chunks [][]byte) {
	if len(chunks) == 0 {
		return
	}
	w, err := mc.NewAofWritter(&verifC05Src{chunks: chunks}, base)
	verifAssert(err == nil, "C16.setup-aof-writer")
	w.Start()
	w.Wait(context.Background())
}

func verifC16Snapshot(mc *MemoryChannel, left int64, chunks [][]byte, size int) {
	w, err := mc.NewRdbWriter(&verifC05Src{chunks: chunks}, left, int64(size))
	verifAssert(err == nil, "C16.setup-rdb-writer")
	w.Start()
	w.Wait(context.Background())
}

// verifC16ReadAll: everything the cache serves from offset x (reader drained as in C05)
func verifC16ReadAll(mc *MemoryChannel, runId string, x int64) ([]byte, bool, bool) {
	rd, err := mc.NewReader(Offset{RunId: runId, Offset: x})
	if err != nil {
		return nil, false, false
	}
	aof := rd.IsAof()
	got, _ := verifC05Drain(rd)
	return got, true, aof
}

// VerifC16Sync: for a leader cache state (log only / snapshot only / snapshot + log; one
// replication id r1) and a follower cache state (empty, prefix, equal, ahead, another id, position
// already collected at the leader) the follower's real Run loop synchronises from the leader's real
// handler, optionally with the stream broken at any message; afterwards whatever the follower serves
// under the leader's id is byte-identical to the leader's stream at the same offsets and contiguous,
// a follower that is ahead is told to take over and keeps its copy, nothing of another id survives
// under the leader's id.
func VerifC16Sync() {
	verifC16Sleeps, verifC16MaxSleeps = 0, verifParam("BACKOFFS", 2)
	verifC16Leader = nil
	L := int64(verifParam("LOGSIZE", 2))
	C := verifParam("CHUNKMAX", 2)
	lbase := int64(100)

	// ---- the leader: stream[i] is the byte at offset lbase+i of history r1 ----
	n := verifRange("nleader", 1, verifParam("NLEADER", 3))
	stream := verifBytes("ldr", n+2) // two more bytes exist in the history than the leader has cached
	pre := verifBytes("pre", 3)       // the history's bytes at lbase-3 .. lbase-1 (older than anything the leader caches)
	hbase := lbase - int64(len(pre))
	hist := append(append([]byte{}, pre...), stream...)
	leaderState := verifChoose("leaderState", 4) // 3: the leader knows the id but has nothing cached under it yet
	lc := verifC05Chan(L, 0)
	// optionally the leader is still under the previous id r0 when the follower shakes hands and
	// switches to r1 (its source failed over; the history continues) before the follower's next call
	failover := leaderState == 0 && verifChoose("failover", 2) == 1
	lid0 := "r1"
	if failover {
		lid0 = "r0"
	}
	lc.SetRunId(lid0)
	var snap []byte
	cachedFrom := 0 // the leader's log starts at lbase+cachedFrom
	switch leaderState {
	case 0: // log only
	case 1: // snapshot only (its log writer has not started yet)
		snap = verifBytes("lsnap", verifRange("lsnaplen", 1, C+1))
		verifC16Snapshot(lc, lbase, [][]byte{snap}, len(snap))
	case 3: // nothing cached yet under the id the leader's input reports
	default: // snapshot + log
		snap = verifBytes("lsnap", verifRange("lsnaplen", 1, C+1))
		verifC16Snapshot(lc, lbase, [][]byte{snap}, len(snap))
	}
	collected := verifChoose("collected", 2) == 1 // the leader no longer has the beginning of its log
	if collected && leaderState == 0 && n >= 3 {
		cachedFrom = 2
	} else {
		collected = false
	}
	if leaderState != 1 && leaderState != 3 {
		var chunks [][]byte
		for i := cachedFrom; i < n; {
			k := C // fixed chunking: what arrives in which write does not matter to the transfer
			if i+k > n {
				k = n - i
			}
			chunks = append(chunks, stream[i:i+k])
			i += k
		}
		src := &verifC16LiveSrc{chunks: chunks, extra: stream[n : n+1], drained: make(chan struct{}), trigger: make(chan struct{})}
		verifC16Leader = src
		w, werr := lc.NewAofWritter(src, lbase+int64(cachedFrom))
		verifAssert(werr == nil, "C16.setup-aof-writer")
		w.Start()
		<-src.drained
	}
	leaderRight := lbase + int64(n)
	if leaderState == 1 {
		leaderRight = lbase
	}
	if leaderState == 3 {
		leaderRight = lbase
		verifCover(true, "c16.leader-empty")
	}

	// ---- the follower ----
	fc := verifC05Chan(L, 0)
	fstate := verifChoose("followerState", 7)
	if leaderState == 3 {
		// an empty leader is judged against followers that hold data of the same history (they are ahead of it
		// and must be offered leadership); what an empty leader and an empty or foreign follower exchange (CLEAR,
		// an empty snapshot at offset 0) is outside this check
		verifAssume(fstate == 1 || fstate == 2)
	}
	var fbytes []byte
	fbase := lbase
	frun := lid0
	otherId := "r0"
	if failover {
		otherId = "rz"
	}
	switch fstate {
	case 0: // empty
		frun = ""
	case 1: // a prefix of the leader's log (possibly all of it)
		k := verifRange("fprefix", 1, n)
		fbytes = stream[:k]
	case 2: // ahead of the leader in the same history
		fbytes = stream[:n+verifRange("fahead", 1, 2)]
	case 3: // another replication id, overlapping offsets
		frun = otherId
		fbase = lbase + int64(verifRange("fshift", -1, 1))
		fbytes = verifBytes("other", verifRange("fotherlen", 1, n+1))
	case 4: // another replication id whose right edge is exactly the leader's newest offset
		frun = otherId
		k := verifRange("fotherlen", 1, 2)
		fbase = leaderRight - int64(k)
		fbytes = verifBytes("other", k)
	case 6: // the same history, far ahead of the leader: two bytes that begin d bytes behind the leader's newest
		// offset, d symbolic (a follower that was leader for a long time before this leader's source was read)
		d := verifI64("ffar")
		verifAssume(verifAnd(d >= 1, d <= 1<<40))
		fbase = leaderRight + d
		fbytes = verifBytes("far", 2)
		verifCover(true, "c16.far-ahead")
	default: // same history, but behind everything the leader still has as a log: k bytes that end g bytes
		// before the leader's snapshot offset (the leader can only answer with its snapshot)
		verifAssume(leaderState == 1 || leaderState == 2)
		k := verifRange("fbehind", 1, 2)
		g := verifRange("fgap", 0, 3-k)
		fbase = lbase - int64(k+g)
		fbytes = pre[len(pre)-k-g : len(pre)-g]
		verifCover(g > 0, "c16.follower-behind-snapshot")
	}
	if frun != "" {
		fc.SetRunId(frun)
		var chunks [][]byte
		for i := 0; i < len(fbytes); {
			k := C
			if i+k > len(fbytes) {
				k = len(fbytes) - i
			}
			chunks = append(chunks, fbytes[i:i+k])
			i += k
		}
		verifC16Fill(fc, fbase, chunks)
	}
	fRightBefore := fbase + int64(len(fbytes))

	// ---- wire them together ----
	wait := usync.NewWaitCloser(nil)
	input := &verifC16Input{ids: []string{"r1", "r0"}}
	if failover {
		verifAssume(fstate == 1) // (a follower ahead under the old id cannot be told from a diverged one)
		input.ids = []string{"r0"}
	}
	leader := &ReplicaLeader{logger: log.WithLogger("[verif-leader] "), input: input, channel: lc}
	leader.Start()
	rf := NewReplicaFollower(1, "in", fc, &cluster.RoleInfo{Address: "leader"})
	cli := &verifC16Client{leader: leader, wait: wait, follower: rf, cutCall: -1, maxCalls: verifParam("MAXCALLS", 5)}
	if verifChoose("interrupt", 2) == 1 {
		cli.cutCall = verifRange("cutCall", 0, 2)
		cli.cutAt = verifRange("cutAt", 0, 2)
	}
	if failover {
		cli.failover = func() {
			lc.SetRunId("r1")
			input.ids = []string{"r1", "r0"}
		}
		verifCover(true, "c16.leader-failover")
	}
	verifC16Cli = cli
	err := rf.Run()
	wait.Close(nil)
	if verifC16Leader != nil {
		verifC16Leader.fire()
	}
	// (the number of calls depends on how the leader's late chunk races with the transfer: not observed)

	// ---- what the follower holds now ----
	// (with an empty leader every follower that holds data of the same history is ahead of it)
	sameHistoryAhead := fstate == 2 || fstate == 6 || (leaderState == 3 && fstate == 1)
	if sameHistoryAhead && cli.cutCall < 0 {
		verifAssert(err != nil && errors.Is(err, ErrLeaderTakeover), "C16.follower-ahead-not-offered-leadership")
	}
	if sameHistoryAhead {
		// never overwritten or truncated: it still serves its own (longer) copy
		l, r := fc.GetOffsetRange("r1")
		verifAssert(l == fbase && r == fRightBefore, "C16.follower-ahead-overwritten")
		verifCover(true, "c16.ahead")
	}
	if fstate == 6 {
		verifReach("c16.end")
		return
	}
	frunNow := fc.RunId()
	if frunNow == "r1" {
		l, r := fc.GetOffsetRange("r1")
		if l != -1 {
			verifAssert(l >= hbase && r <= lbase+int64(len(stream)), "C16.follower-range-outside-history")
			for x := l; x <= r; x++ {
				verifAssert(fc.IsValidOffset(Offset{RunId: "r1", Offset: x}), "C16.follower-range-not-contiguous")
				got, ok, aof := verifC16ReadAll(fc, "r1", x)
				verifAssert(ok, "C16.follower-range-not-contiguous")
				if !ok || !aof {
					continue
				}
				verifAssert(int64(len(got)) == r-x, "C16.follower-range-not-contiguous")
				for i := 0; i < len(got); i++ {
					o := int(x-hbase) + i
					verifAssert(o >= 0 && o < len(hist) && got[i] == hist[o], "C16.follower-bytes-differ-from-leader")
				}
			}
			verifCover(r > fRightBefore || fstate == 0 || fstate == 3 || fstate == 4, "c16.received-data")
		}
		if rl, rs := fc.GetRdb("r1"); rl != -1 {
			verifAssert(snap != nil && rl == lbase && rs == int64(len(snap)), "C16.follower-offers-unknown-snapshot")
			got, ok, aof := verifC16ReadAll(fc, "r1", rl-1)
			verifAssert(ok && !aof, "C16.follower-snapshot-unreadable")
			for i := 0; i < len(got) && i < len(snap); i++ {
				verifAssert(got[i] == snap[i], "C16.follower-snapshot-differs-from-leader")
			}
			verifCover(true, "c16.snapshot-received")
		}
	} else if frunNow != "" && frunNow == frun {
		// the follower never got as far as adopting the leader's (new) id: its old copy is untouched -
		// nothing of the leader's current history was stored under the old label
		l, r := fc.GetOffsetRange(frun)
		verifAssert(l == fbase && r == fRightBefore, "C16.follower-old-copy-damaged")
	}
	verifReach("c16.end")
}
