package syncer

// C17: switching the bidirectional recovery format (sync <-> pipeline/parallel
// namespace migration), stopped after any number of its requests.

import (
	"context"
	"strconv"

	"github.com/mgtv-tech/redis-GunYu/config"
	"github.com/mgtv-tech/redis-GunYu/pkg/log"
	"github.com/mgtv-tech/redis-GunYu/pkg/redis/checkpoint"
)

func verifResumeOf(f *verifFake, name string, mode config.ReplayMode) (int64, bool) {
	ro := verifBisyncOutput(f, mode)
	ro.cfg.CheckpointName = name
	sp, _, ok, err := ro.bisyncStartPoint(context.Background(), []string{"rid1"})
	if err != nil || !ok {
		return 0, false
	}
	return sp.Offset, true
}

// VerifC17Migration: the namespace referenced by the checkpoint index is moved to
// the other recovery format; after a stop at any request the next start (which
// resolves the namespace again and then recovers) finds a position not smaller
// than the one held before.
func VerifC17Migration() {
	verifClockNs = 1700000000000000000
	toParallel := verifChoose("direction", 2) == 0
	f := verifNewFake()
	old := "redis-gunyu-checkpoint-bisync:0ld1"
	f.request("hset", []interface{}{config.CheckpointKeyHashKey, "rid1", old})
	root := verifI64("rootOff")
	pos := verifI64("posOff")
	verifAssume(verifAnd(root >= 1, root < 1<<40))
	verifAssume(verifAnd(pos >= root, pos < 1<<41))
	f.request("hset", []interface{}{old, "rid1_runid", "rid1", "rid1_version", "v", "rid1_offset", strconv.FormatInt(root, 10)})
	tag := checkpoint.BisyncSlotTag(0)
	// a namespace written before the mode field existed carries no bisync_mode: its format is inferred
	legacy := verifChoose("legacyNamespace", 2) == 1
	var fromMode, toMode config.ReplayMode
	if toParallel {
		fromMode, toMode = config.ReplayModeSync, config.ReplayModeParallel
		key := checkpoint.BisyncLatestCheckpointKey(old, tag)
		rec := &checkpoint.BisyncCommitRecord{Key: key, RunID: "rid1", SyncerID: "s", UnitSeq: 7, StartOffset: pos - 1, EndOffset: pos, Slot: 0, MTime: 9}
		f.request("hset", append([]interface{}{key}, rec.HashArgs()...))
		if !legacy {
			checkpoint.SaveBisyncNamespaceMode(f, old, checkpoint.BisyncModeSync)
		}
	} else {
		fromMode, toMode = config.ReplayModeParallel, config.ReplayModeSync
		fr := &checkpoint.BisyncFrontierSnapshot{Version: "v", RunID: "rid1", UnitSeq: 7, Offset: pos, MTime: 9}
		f.request("hset", append([]interface{}{checkpoint.BisyncFrontierKey(old)}, fr.HashArgs()...))
		if !legacy {
			checkpoint.SaveBisyncNamespaceMode(f, old, checkpoint.BisyncModeParallel)
		}
	}
	verifCover(legacy, "c17.migration.legacy-namespace")
	before, ok := verifResumeOf(f, old, fromMode)
	verifAssert(ok && before == pos, "C17.migration.setup")
	nSeed := len(f.log)
	s := &syncer{logger: log.WithLogger("[verif] ")}
	desired := checkpoint.BisyncModeFromReplayMode(toMode)
	name1, err := s.resolveBisyncCheckpointNameWithClient(f, []string{"rid1", ""}, desired, []uint16{0})
	verifAssert(err == nil, "C17.migration.error")
	verifAssert(name1 != old, "C17.migration.not-migrated")
	reqLog := f.log
	verifObserve("reqs", int64(len(reqLog)-nSeed))
	for p := nSeed; p <= len(reqLog); p++ {
		nf := verifStateAfter(reqLog, p)
		name2, err := (&syncer{logger: log.WithLogger("[verif] ")}).resolveBisyncCheckpointNameWithClient(nf, []string{"rid1", ""}, desired, []uint16{0})
		verifAssert(err == nil, "C17.migration.next-start-fails")
		if err != nil {
			continue
		}
		got, ok := verifResumeOf(nf, name2, toMode)
		verifAssert(ok, "C17.migration.position-lost")
		if ok {
			verifAssert(got >= pos, "C17.migration.position-smaller")
		}
	}
	verifReach("c17.migration")
}
