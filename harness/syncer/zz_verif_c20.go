package syncer

// C20 / C04 on the bidirectional snapshot replay path: the real rdbReplayBisync ->
// buildBisyncRdbReplayUnit -> execBisyncRdbUnit against fakeredis, fed with entries whose
// parser is a stub (flags and expansion chosen by the harness), and the real SendRdb +
// StartPoint of a bidirectional link under target faults.

import (
	"context"
	"strconv"

	"github.com/mgtv-tech/redis-GunYu/config"
	"github.com/mgtv-tech/redis-GunYu/pkg/rdb"
	"github.com/mgtv-tech/redis-GunYu/pkg/redis/checkpoint"
)

type verifRdbStubParser struct {
	key        []byte
	canRestore bool
	split      bool
	first      bool
	dumpSize   int
	cmds       [][]string // expansion: command + args after the key
	dump       []byte
}

func (p *verifRdbStubParser) Type() int              { return rdb.RdbObjectList }
func (p *verifRdbStubParser) RdbType() int           { return rdb.RdbTypeList }
func (p *verifRdbStubParser) ReadBuffer(*rdb.Loader) {}
func (p *verifRdbStubParser) ExecCmd(cb rdb.RdbObjExecutor) {
	for _, c := range p.cmds {
		args := []interface{}{p.key}
		for _, a := range c[1:] {
			args = append(args, []byte(a))
		}
		if err := cb(c[0], args...); err != nil {
			panic(err)
		}
	}
}
func (p *verifRdbStubParser) Key() []byte             { return p.key }
func (p *verifRdbStubParser) Value() []byte           { return nil }
func (p *verifRdbStubParser) CreateValueDump() []byte { return p.dump }
func (p *verifRdbStubParser) ValueDumpSize() int      { return p.dumpSize }
func (p *verifRdbStubParser) FirstBin() bool          { return p.first }
func (p *verifRdbStubParser) IsSplited() bool         { return p.split }
func (p *verifRdbStubParser) DB() uint32              { return 0 }
func (p *verifRdbStubParser) CanRestore() bool        { return p.canRestore }

const verifC20NowMs = 1700000000000

func verifStrsEq(a, b []string) bool {
	if len(a) != len(b) {
		return false
	}
	for i := range a {
		if a[i] != b[i] {
			return false
		}
	}
	return true
}

type verifC20Key struct {
	db       int
	key      string
	chunked  bool // two bins (expansion), else one bin
	preexist bool
	preTTL   bool
	expireAt uint64
}

// VerifC20Bisync: a snapshot of two keys (possibly the same name in two databases), each in one
// bin or in two, replayed by the bidirectional path under each key-exists policy, RESTORE enabled
// or not, against a target on which each of them is absent or present (with or without expiry).
func VerifC20Bisync() {
	verifClockNs = verifC20NowMs * 1000000
	policy := []string{"replace", "ignore", "error"}[verifChoose("policy", 3)]
	restore := verifChoose("restore", 2) == 1
	var keys []verifC20Key
	// first key: k in database 0; second key: k in database 1 (the same name again) or m in database 0 / 1
	second := verifChoose("second", 3)
	keys = append(keys, verifC20Key{db: 0, key: "k"})
	switch second {
	case 0:
		keys = append(keys, verifC20Key{db: 1, key: "k"})
	case 1:
		keys = append(keys, verifC20Key{db: 0, key: "m"})
	default:
		keys = append(keys, verifC20Key{db: 1, key: "m"})
	}
	f := verifNewFake()
	for i := range keys {
		k := &keys[i]
		k.chunked = verifChoose("chunked", 2) == 1
		k.preexist = verifChoose("preexist", 2) == 1
		k.preTTL = k.preexist && verifChoose("prettl", 2) == 1
		if i == 0 {
			// concrete expiries (the unit digest reads the rendered TTL); the conversion itself is decided
			// for every value by VerifC20BisyncTTL
			k.expireAt = []uint64{0, verifC20NowMs - 5, verifC20NowMs, verifC20NowMs + 12345}[verifChoose("expire", 4)]
		}
		if k.preexist {
			f.request("select", []interface{}{strconv.Itoa(k.db)})
			f.request("rpush", []interface{}{k.key, "old"})
			if k.preTTL {
				f.request("pexpire", []interface{}{k.key, "777"})
			}
		}
	}
	f.request("select", []interface{}{"0"})
	nPre := len(f.log)

	ro := verifBisyncLink(f, "redis-gunyu-checkpoint-bisync:aa01", config.ReplayModeSync)
	ro.cfg.KeyExists = policy
	ro.cfg.ReplayRdbEnableRestore = restore
	ro.cfg.MaxProtoBulkLen = 1 << 20
	ro.cfg.Redis.Version = "7.0"

	mk := func(k verifC20Key, first, split bool, cmds [][]string) *rdb.BinEntry {
		p := &verifRdbStubParser{key: []byte(k.key), canRestore: true, split: split, first: first, dumpSize: 20, cmds: cmds, dump: []byte("DUMP")}
		return &rdb.BinEntry{DB: k.db, Key: []byte(k.key), Type: rdb.RdbTypeList, ExpireAt: k.expireAt, ObjectParser: p}
	}
	pipe := make(chan *rdb.BinEntry, 8)
	for _, k := range keys {
		if k.chunked {
			pipe <- mk(k, true, true, [][]string{{"rpush", "a"}})
			pipe <- mk(k, false, true, [][]string{{"rpush", "b"}})
		} else {
			pipe <- mk(k, true, false, [][]string{{"rpush", "a"}, {"rpush", "b"}})
		}
	}
	pipe <- &rdb.BinEntry{Done: true}
	err := ro.rdbReplayBisync(context.Background(), "rid1", 4242, pipe)
	verifObserve("err", verifB2I(err != nil))

	// the replay stops at the first key the error policy refuses
	stopped := false
	for i, k := range keys {
		cls := policy + "/" + strconv.Itoa(i)
		o := f.st.obj(k.db, k.key, false)
		// did any request after the preparation modify this key?
		touched := false
		for _, r := range f.log[nPre:] {
			if r.db != k.db || len(r.args) == 0 || verifArgStr(r.args[0]) != k.key {
				continue
			}
			switch r.cmd {
			case "exists":
			case "restore":
				rep := false
				for _, a := range r.args[3:] {
					if verifArgStr(a) == "REPLACE" || verifArgStr(a) == "replace" {
						rep = true
					}
				}
				if rep || !k.preexist {
					touched = true
				}
			default:
				touched = true
			}
		}
		unchanged := (!k.preexist && o == nil) || (k.preexist && o != nil && verifStrsEq(o.ops, []string{"rpush old"}) && o.hasTTL == k.preTTL)
		if stopped {
			verifAssert(!touched && unchanged, "C20.bisync.replayed-after-error/"+cls)
			continue
		}
		if !k.preexist || policy == "replace" {
			verifAssert(err == nil || i+1 < len(keys), "C20.bisync.replace.error/"+cls)
			wantOps := []string{"rpush a", "rpush b"}
			if restore && !k.chunked {
				wantOps = []string{"restore DUMP"}
			}
			verifAssert(o != nil && verifStrsEq(o.ops, wantOps), "C20.bisync.replace.value/"+cls)
			if o != nil {
				verifAssert(o.hasTTL == (k.expireAt != 0), "C20.bisync.replace.expiry-presence/"+cls)
				if k.expireAt != 0 {
					want := uint64(1)
					if k.expireAt > verifC20NowMs {
						want = k.expireAt - verifC20NowMs
					}
					verifAssert(o.ttl == strconv.FormatUint(want, 10), "C20.bisync.replace.expiry-value/"+cls)
				}
			}
			verifReach("c20.bisync.replace")
			continue
		}
		switch policy {
		case "ignore":
			verifAssert(!touched, "C20.bisync.ignore.key-modified/"+cls)
			verifAssert(unchanged, "C20.bisync.ignore.state-changed/"+cls)
			verifReach("c20.bisync.ignore")
		case "error":
			verifAssert(err != nil, "C20.bisync.error.no-error/"+cls)
			verifAssert(!touched && unchanged, "C20.bisync.error.key-modified/"+cls)
			stopped = true
			verifReach("c20.bisync.error")
		}
	}
	if !stopped {
		verifAssert(err == nil, "C20.bisync.error-without-reason")
	}
	verifReach("c20.bisync.done")
}

// VerifC20BisyncTTL: the relative TTL the bidirectional path hands to RESTORE / PEXPIRE for an
// absolute snapshot expiry: none for none, the remaining time, and 1 ms for a key already past it.
func VerifC20BisyncTTL() {
	verifClockNs = verifC20NowMs * 1000000
	e := verifU64("expireAt")
	got := bisyncRdbTTLms(e)
	want := uint64(0)
	if e != 0 {
		want = 1
		if e > verifC20NowMs {
			want = e - verifC20NowMs
		}
	}
	verifAssert(got == want, "C20.bisync.ttl-conversion")
	verifReach("c20.bisync.ttl")
}

// VerifC04Bisync: a bidirectional link's snapshot replay (real SendRdb: parser, distributor, 1-2
// rdbReplayBisync workers) against a target that breaks at, or rejects, the n-th request; the same
// process then asks for its start point and tries again (in-process retry, as the syncer's restart
// loop does). Until a replay has applied every key, no start point may name the snapshot's offset and
// no checkpoint may carry it.
func VerifC04Bisync() {
	nKeys := verifParam("NKEYS", 2)
	parallel := verifRange("parallel", 1, 2)
	mode := []config.ReplayMode{config.ReplayModeSync, config.ReplayModeParallel}[verifChoose("mode", 2)]
	fake := verifNewFake()
	ro := verifBisyncLink(fake, "redis-gunyu-checkpoint-bisync:aa01", mode)
	ro.cfg.ReplayRdbParallel = parallel
	ro.cfg.ReplayRdbEnableRestore = false
	ro.cfg.KeyExists = "replace"
	ro.cfg.MaxProtoBulkLen = 1 << 20
	ro.cfg.Stats.DisableLog = true
	const snapOffset = 1000
	completed := false
	// the link's bookkeeping before the full sync is decided: none yet (the start-up sequence then
	// registers the source's id: SetRunId writes the 'none yet' root entry), or a root position left by
	// an earlier incremental phase of the same source (a forced full resynchronisation)
	if verifChoose("root", 2) == 1 {
		checkpoint.SetCheckpoint(fake, &checkpoint.CheckpointInfo{Key: ro.cfg.CheckpointName, RunId: "rid1", Version: "v", Offset: 500})
	} else {
		ro.cfg.RunId = ""
	}
	attempts := verifParam("ATTEMPTS", 2)
	for a := 0; a <= attempts; a++ {
		// a new attempt works on new connections: no fault pending, not inside a transaction, database 0
		fake.failAll, fake.crashAt, fake.rejectAt, fake.nReq = false, -1, 0, 0
		fake.inTxn, fake.queued, fake.queuedI, fake.curDb = false, nil, nil, 0
		sp, err := ro.StartPoint(context.Background(), []string{"rid1"})
		verifAssert(err == nil, "C04.bisync.startpoint-error")
		if !completed {
			verifAssert(!(sp.RunId == "rid1" && sp.Offset >= snapOffset), "C04.bisync.resume-position-advanced-after-incomplete-replay")
		}
		if a == attempts || completed {
			break
		}
		verifAssert(ro.SetRunId(context.Background(), "rid1") == nil, "C04.bisync.setrunid-error")
		fake.nReq = 0
		// every attempt but possibly the last one suffers a fault
		fault := 1 + verifChoose("fault", 2)
		if a == attempts-1 && verifChoose("healthy", 2) == 1 {
			fault = 0
		}
		switch fault {
		case 1:
			fake.crashAt = len(fake.log) + verifRange("failAt", 0, 3*nKeys)
		case 2:
			fake.rejectAt = verifRange("rejectAt", 1, 3*nKeys+2)
		}
		rd := &verifChanReader{data: verifSnapshot(nKeys), runId: "rid1", left: snapOffset}
		err = ro.SendRdb(context.Background(), rd)
		fake.failAll, fake.crashAt, fake.rejectAt = false, -1, 0
		all := true
		for i := 0; i < nKeys; i++ {
			if fake.st.obj(0, "s"+string(rune('0'+i)), false) == nil {
				all = false
			}
		}
		verifAssert(verifImplies(!all, err != nil), "C04.bisync.incomplete-reported-as-success")
		verifCover(!all && err != nil, "c04.bisync.incomplete")
		verifCover(err == nil, "c04.bisync.complete")
		if err == nil {
			completed = true
		}
	}
	verifReach("c04.bisync.done")
}


// VerifC20BisyncRace: the key is absent when the unit builder probes it and is created by another writer
// before the unit's MULTI/EXEC runs (the RESTORE inside it is then refused with BUSYKEY). With policy error the
// replay must stop with an error, with ignore the foreign value stays, with replace the snapshot's value wins.
func VerifC20BisyncRace() {
	verifClockNs = verifC20NowMs * 1000000
	policy := []string{"replace", "ignore", "error"}[verifChoose("policy", 3)]
	f := verifNewFake()
	ro := verifBisyncLink(f, "redis-gunyu-checkpoint-bisync:aa01", config.ReplayModeSync)
	ro.cfg.KeyExists = policy
	ro.cfg.ReplayRdbEnableRestore = true
	ro.cfg.MaxProtoBulkLen = 1 << 20
	ro.cfg.Redis.Version = "7.0"
	nPre := len(f.log)
	at := verifRange("foreignAt", 1, verifParam("RACEREQS", 12))
	foreignIdx := -1
	f.onReq = func(n int) {
		if n == at+verifC20RaceBase && foreignIdx < 0 {
			// another client creates the key in database 0 at this moment
			o := f.st.obj(0, "k", true)
			o.ops = append(o.ops, "rpush foreign")
			foreignIdx = len(f.log)
		}
	}
	verifC20RaceBase = f.nReq
	p := &verifRdbStubParser{key: []byte("k"), canRestore: true, first: true, dumpSize: 20, cmds: [][]string{{"rpush", "a"}, {"rpush", "b"}}, dump: []byte("DUMP")}
	pipe := make(chan *rdb.BinEntry, 4)
	pipe <- &rdb.BinEntry{DB: 0, Key: []byte("k"), Type: rdb.RdbTypeList, ObjectParser: p}
	pipe <- &rdb.BinEntry{Done: true}
	err := ro.rdbReplayBisync(context.Background(), "rid1", 4242, pipe)
	f.onReq = nil
	// where the unit's RESTORE was executed (the EXEC of its transaction)
	execIdx, probeIdx := -1, -1
	for i, r := range f.log[nPre:] {
		if r.cmd == "exists" && len(r.args) > 0 && verifArgStr(r.args[0]) == "k" && probeIdx < 0 {
			probeIdx = nPre + i
		}
		if r.cmd == "restore" && len(r.args) > 0 && verifArgStr(r.args[0]) == "k" {
			for j := nPre + i; j < len(f.log); j++ {
				if f.log[j].cmd == "exec" && f.log[j].txn == r.txn {
					execIdx = j
					break
				}
			}
		}
	}
	if foreignIdx < 0 || probeIdx < 0 || execIdx < 0 || !(foreignIdx > probeIdx && foreignIdx <= execIdx) {
		return // the foreign write did not fall between the probe and the transaction
	}
	verifCover(true, "c20.race.between-probe-and-exec")
	o := f.st.obj(0, "k", false)
	switch policy {
	case "error":
		verifAssert(err != nil, "C20.bisync.race.error-policy-refusal-not-reported")
		verifAssert(o != nil && verifStrsEq(o.ops, []string{"rpush foreign"}), "C20.bisync.race.error-policy-key-modified")
	case "ignore":
		verifAssert(o != nil && verifStrsEq(o.ops, []string{"rpush foreign"}), "C20.bisync.race.ignore-policy-key-modified")
	default:
		verifAssert(err == nil && o != nil && verifStrsEq(o.ops, []string{"restore DUMP"}), "C20.bisync.race.replace-policy-value")
	}
	verifReach("c20.race.done")
}

var verifC20RaceBase int
