package syncer

// VerifSendAofLives (C02, also C01/C07): three successive lives of the tool over one source stream, each
// through the real start-up path and the real incremental replay - StartPoint -> checkpoint.GetCheckpoint,
// sendAof (parseAofCommand goroutine with the real decoder, sendCmdsBatch) - against one target that survives
// the crashes. Lives 1 and 2 lose the target connection at any request; life 3 runs to the end of the stream.
// Afterwards the target holds exactly the source's dataset: every write in the database the source wrote it
// to, none anywhere else; in transactional mode no write was executed twice.

import (
	"bufio"
	"context"
	"io"
	"strconv"
	"time"

	"github.com/mgtv-tech/redis-GunYu/pkg/redis/checkpoint"
	"github.com/mgtv-tech/redis-GunYu/pkg/redis/client"
)

// verifHeldReader delivers the stream and then blocks (a live replication link with nothing more to say)
// until it is released, then reports EOF.
type verifHeldReader struct {
	data []byte
	hold chan struct{}
}

func (r *verifHeldReader) Read(p []byte) (int, error) {
	if len(r.data) > 0 {
		n := copy(p, r.data)
		r.data = r.data[n:]
		return n, nil
	}
	<-r.hold
	return 0, io.EOF
}

type verifLiveWrite struct {
	key string
	db  int
	end int64
}

func VerifSendAofLives() {
	txnMode := verifChoose("txnMode", 2) == 1
	verifClockNs = 1700000000000000000 // the full sync's checkpoint carries a modification time
	defer func() { verifClockNs = 0 }()
	base := int64(100)
	// the source stream behind the snapshot offset: SELECT 2, two writes, optionally SELECT 1 and one more
	var stream []byte
	var writes []verifLiveWrite
	db := 0
	add := func(args ...string) int64 {
		var b [][]byte
		for _, a := range args {
			b = append(b, []byte(a))
		}
		stream = append(stream, verifResp(b...)...)
		return base + int64(len(stream))
	}
	set := func(k string) {
		end := add("SET", k, "v")
		writes = append(writes, verifLiveWrite{k, db, end})
	}
	add("SELECT", "2")
	db = 2
	set("ka")
	set("kb")
	if verifParam("LIFESWITCH", 1) == 1 && verifChoose("switch", 2) == 1 {
		add("SELECT", "1")
		db = 1
	}
	set("kc")

	fake := verifNewFake()
	fake.tagOf = func(cmd string, args []interface{}) int {
		if cmd == "set" && len(args) > 0 {
			for i, w := range writes {
				if verifArgStr(args[0]) == w.key {
					return i
				}
			}
		}
		return -1
	}
	// a completed full sync: its checkpoint (with a modification time) sits in database 0
	verifAssert(checkpoint.SetCheckpoint(fake, &checkpoint.CheckpointInfo{Key: "cp", RunId: "rid1", Version: "v", Offset: base}) == nil, "C02.lives.setup")
	bc := uint(verifRange("batchCount", 1, 2))
	// the order in which a restart visits the target's databases (Go map iteration) - either way
	fake.keyspaceReverse = verifChoose("dbOrder", 2) == 1
	lastStored, haveStored := int64(0), false
	executed := make([]int, len(writes))

	resynced := false
	life := func(n int, last bool) {
		if resynced {
			return
		}
		// a new process: fresh output object, fresh connections (database 0, no open transaction)
		fake.failAll, fake.inTxn, fake.queued, fake.queuedI, fake.pending = false, false, nil, nil, nil
		fake.crashAt = -1
		// built the way the syncer builds it (filters, database map), with the harness's batching parameters
		ro := NewRedisOutput(RedisOutputConfig{InputName: "in", CheckpointName: "cp", RunId: "rid1", TargetDb: -1,
			CanTransaction: txnMode, EnableResumeFromBreakPoint: true, BatchCmdCount: bc, BatchBufferSize: 1 << 30,
			BatchTicker: time.Hour, KeepaliveTicker: time.Hour, UpdateCheckpointTicker: time.Hour})
		ro.newRedisConn = func(context.Context) (client.Redis, error) {
			fake.curDb, fake.inTxn = 0, false
			return fake, nil
		}
		sp, err := ro.StartPoint(context.Background(), []string{"rid1"})
		verifAssert(err == nil, "C02.lives.startpoint-error")
		if err != nil || sp.RunId != "rid1" {
			// no usable position (e.g. an offset field without its run id field in the newest database): the next
			// start takes a full snapshot, nothing can be lost or land in a wrong database - the scenario ends here
			resynced = true
			verifReach("c02.lives.full-resync")
			return
		}
		verifAssert(sp.Offset >= base && sp.Offset <= base+int64(len(stream)), "C02.lives.position-outside-stream")
		if sp.Offset < base || sp.Offset > base+int64(len(stream)) {
			return
		}
		from := len(fake.log)
		if !last {
			// the connection to the target is lost at some request of this life (or not at all)
			// (a value beyond the life's last request means: no loss of connection in this life)
			lim := verifParam("LIFEREQS", 20)
			if n == 2 {
				lim = verifParam("LIFE2REQS", 12)
			}
			c := verifRange("crash", 0, lim)
			fake.crashAt = from + c
		}
		verifTickers = []chan time.Time{make(chan time.Time), make(chan time.Time), make(chan time.Time)}
		verifTickerSeq = 0
		rd := &verifHeldReader{data: stream[sp.Offset-base:], hold: make(chan struct{})}
		finished := make(chan struct{})
		stopTicks := make(chan struct{})
		tick := func(name string) {
			if n != 2 {
				return // ticker firings are explored in the second life (a resumed run)
			}
			if ev := 2 * verifChoose(name, 2); ev > 0 { // the keep-alive ticker, or none
				select {
				case verifTickers[ev-1] <- time.Time{}:
				case <-stopTicks:
				case <-finished:
				}
			}
		}
		go func() {
			serr := ro.sendAof(context.Background(), "rid1", bufio.NewReaderSize(rd, 64), sp.Offset, -1)
			if !verifSymbolic() && serr != nil {
				println("LIFE", n, "sendAof:", serr.Error())
			}
			close(finished)
		}()
		// a ticker may fire while the first items arrive
		tick("tickEarly")
		verifSettle()
		if last {
			// before a clean stop whatever is still queued is flushed by the batch ticker
			select {
			case verifTickers[0] <- time.Time{}:
			case <-finished:
			}
			verifSettle()
		}
		close(rd.hold)
		close(stopTicks)
		<-finished
		// what this life really executed
		seg := fake.log[from:]
		execSeen := map[int]bool{}
		for _, r := range seg {
			if r.cmd == "exec" {
				execSeen[r.txn] = true
			}
		}
		for _, r := range seg {
			if r.tag >= 0 && (r.txn == 0 || execSeen[r.txn]) {
				executed[r.tag]++
			}
			// C07 across restarts: every position that reaches the target is a command boundary of the stream and
			// the sequence never decreases
			if vs, ok := verifIsOffsetField(r); ok && (r.txn == 0 || execSeen[r.txn]) {
				v, perr := strconv.ParseInt(vs, 10, 64)
				verifAssert(perr == nil, "C07.offset-not-a-number")
				if haveStored {
					verifAssert(v >= lastStored, "C07.lives.stored-position-decreased")
				}
				lastStored, haveStored = v, true
			}
		}
		if !verifSymbolic() {
			for _, r := range seg {
				println("LIFE", n, r.cmd, r.db, r.txn, r.tag, len(r.args))
			}
		}
	}
	life(1, false)
	life(2, false)
	life(3, true)

	if resynced {
		return
	}
	// the target now holds the source's dataset
	for i, w := range writes {
		verifAssert(executed[i] >= 1, "C02.lives.write-lost")
		if txnMode {
			verifAssert(executed[i] <= 1, "C02.lives.txn-mode-repeats-write")
		}
		for d := 0; d <= 2; d++ {
			o := fake.st.obj(d, w.key, false)
			if d == w.db {
				verifAssert(o != nil, "C02.lives.write-missing-in-its-database")
			} else {
				verifAssert(o == nil, "C02.lives.write-in-wrong-database")
			}
		}
	}
	verifCover(executed[len(writes)-1] >= 1, "c02.lives.completed")
	verifReach("c02.lives.done")
}
