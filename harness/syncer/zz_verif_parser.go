package syncer

// H01a: the stream parser (*RedisOutput).parseAofCommand with the real decoder,
// the real filter built by NewRedisOutput and the real database mapping.

import (
	"bufio"
	"bytes"
	"strconv"

	"github.com/mgtv-tech/redis-GunYu/config"
	usync "github.com/mgtv-tech/redis-GunYu/pkg/sync"
)

type verifSrcCmd struct {
	args [][]byte
	end  int64 // bytes of the stream up to and including this command
}

func verifResp(args ...[]byte) []byte {
	var b []byte
	b = append(b, '*')
	b = append(b, strconv.Itoa(len(args))...)
	b = append(b, '\r', '\n')
	for _, a := range args {
		b = append(b, '$')
		b = append(b, strconv.Itoa(len(a))...)
		b = append(b, '\r', '\n')
		b = append(b, a...)
		b = append(b, '\r', '\n')
	}
	return b
}

type verifExpect struct {
	cmd  string
	args [][]byte
	db   int
	off  int64
}

const verifNTemplates = 13

// verifSrcTemplate returns the arguments of source command number t.
func verifSrcTemplate(t int) [][]byte {
	key := func() []byte { return verifBytes("key", 2) }
	val := func() []byte { return verifBytes("val", 1) }
	switch t {
	case 0:
		return [][]byte{[]byte("SELECT"), []byte(strconv.Itoa(verifChoose("seldb", 4)))}
	case 1:
		return [][]byte{[]byte("select"), []byte("10")}
	case 2:
		return [][]byte{[]byte("MULTI")}
	case 3:
		return [][]byte{[]byte("EXEC")}
	case 4:
		return [][]byte{[]byte("PING")}
	case 5:
		return [][]byte{[]byte("REPLCONF"), []byte("GETACK"), []byte("*")}
	case 6:
		return [][]byte{[]byte("SET"), key(), val()}
	case 7:
		return [][]byte{[]byte("del"), key(), key()}
	case 8:
		return [][]byte{[]byte("MSET"), key(), val(), key(), val()}
	case 9:
		return [][]byte{[]byte("PUBLISH"), []byte("__sentinel__:hello"), val()}
	case 10:
		return [][]byte{[]byte("FLUSHALL")}
	case 11:
		return [][]byte{[]byte("spop"), key()} // blacklisted by configuration
	default:
		// a write to one of the tool's own bookkeeping keys found in the source
		pfx := []string{config.CheckpointKey, config.CheckpointKeyHashKey, config.NamespacePrefixKey}[verifChoose("bkkey", 3)]
		k := append([]byte(pfx), verifBytes("sfx", 1)...)
		if verifChoose("bkcmd", 2) == 0 {
			return [][]byte{[]byte("HSET"), k, []byte("f"), val()}
		}
		return [][]byte{[]byte("DEL"), key(), k}
	}
}

func verifMapDb(ro *RedisOutput, d int) int {
	if ro.cfg.TargetDb != -1 {
		return ro.cfg.TargetDb
	}
	if t, ok := ro.cfg.TargetDbMap[d]; ok {
		return t
	}
	return d
}

func verifIsBookkeeping(k []byte) bool {
	return bytes.HasPrefix(k, []byte(config.CheckpointKey)) || bytes.HasPrefix(k, []byte(config.NamespacePrefixKey))
}

// VerifC01Parser: what the parser hands to the sender equals the reference
// transformation of the source stream: only documented removals, nothing
// altered/invented/reordered, every item in the DB of the latest accepted
// SELECT after mapping, every item's offset = start + bytes through that command.
func VerifC01Parser() {
	k := verifParam("KP", 2)
	cfg := RedisOutputConfig{InputName: "in", CheckpointName: "cp", RunId: "rid1", TargetDb: -1}
	switch verifChoose("dbmap", 4) {
	case 1:
		cfg.TargetDbMap = map[int]int{1: 2} // two source DBs share one target DB
	case 2:
		cfg.TargetDb = 0
	case 3:
		cfg.TargetDbMap = map[int]int{1: 2, 2: 1} // a swap: source-space and target-space numbers coincide without meaning the same DB
	}
	cfg.Filter.DbBlacklist = []int{3}
	cfg.Filter.CmdBlacklist = []string{"spop"}
	ro := NewRedisOutput(cfg)
	start := verifI64("start")
	verifAssume(verifAnd(start >= 0, start < 1<<40))

	var stream []byte
	var src []verifSrcCmd
	for i := 0; i < k; i++ {
		args := verifSrcTemplate(verifChoose("tmpl", verifNTemplates))
		stream = append(stream, verifResp(args...)...)
		src = append(src, verifSrcCmd{args: args, end: int64(len(stream))})
	}

	// reference transformation
	var want []verifExpect
	bypass := false
	cur := -1
	for _, c := range src {
		name := string(bytes.ToLower(c.args[0]))
		argv := c.args[1:]
		off := start + c.end
		if name == "ping" {
			// keep-alives are handed on (the sender consumes them) unless the current source DB is filtered
			if !bypass {
				want = append(want, verifExpect{cmd: "ping", args: argv, db: cur, off: off})
			}
			continue
		}
		if name == "select" {
			d, _ := strconv.Atoi(string(argv[0]))
			bypass = d == 3
			if bypass {
				continue
			}
			m := verifMapDb(ro, d)
			if m != cur {
				cur = m
				want = append(want, verifExpect{cmd: "select", args: [][]byte{[]byte(strconv.Itoa(m))}, db: m, off: off})
			}
			continue
		}
		if bypass {
			continue
		}
		if name == "replconf" || name == "flushall" || name == "spop" || name == "publish" {
			continue
		}
		switch name {
		case "set", "hset":
			if verifIsBookkeeping(argv[0]) {
				continue
			}
		case "del":
			var keep [][]byte
			for _, a := range argv {
				if !verifIsBookkeeping(a) {
					keep = append(keep, a)
				}
			}
			if len(keep) == 0 {
				continue
			}
			argv = keep
		case "mset":
			var keep [][]byte
			for i := 0; i+1 < len(argv); i += 2 {
				if !verifIsBookkeeping(argv[i]) {
					keep = append(keep, argv[i], argv[i+1])
				}
			}
			if len(keep) == 0 {
				continue
			}
			argv = keep
		}
		want = append(want, verifExpect{cmd: name, args: argv, db: cur, off: off})
	}

	sendBuf := make(chan cmdExecution, 2*k+2)
	rw := usync.NewWaitCloser(nil)
	_ = ro.parseAofCommand(rw, bufio.NewReaderSize(bytes.NewReader(stream), 16), start, sendBuf)
	rw.Close(nil)
	close(sendBuf)
	var got []cmdExecution
	for it := range sendBuf {
		got = append(got, it)
	}
	verifObserve("ngot", int64(len(got)))
	verifAssert(len(got) == len(want), "C01.parser.count")
	for i := 0; i < len(got) && i < len(want); i++ {
		g, w := got[i], want[i]
		verifAssert(g.Cmd == w.cmd, "C01.parser.command")
		verifAssert(g.Db == w.db, "C01.parser.db")
		verifAssert(g.Offset == w.off, "C01.parser.offset")
		verifObserve("off", g.Offset-start)
		ok := len(g.Args) == len(w.args)
		for j := 0; ok && j < len(w.args); j++ {
			b, isB := g.Args[j].([]byte)
			ok = isB && bytes.Equal(b, w.args[j])
		}
		verifAssert(ok, "C01.parser.args")
	}
	verifCover(len(want) == k && k > 0, "parser.all-forwarded")
	verifCover(len(want) == 0, "parser.all-dropped")
	verifReach("parser.done")
}

// VerifC10Bookkeeping (C10, last clause): whatever key/slot filter section the configuration
// carries - none at all, an empty one, a prefix whitelist, a slot whitelist - the output built by
// the real NewRedisOutput never forwards a command's key under one of the tool's bookkeeping
// prefixes (incremental stream) and filters such a key of a snapshot.
func VerifC10Bookkeeping() {
	cfg := RedisOutputConfig{InputName: "in", CheckpointName: "cp", RunId: "rid1", TargetDb: -1}
	switch verifChoose("filterSection", 4) {
	case 1:
		cfg.Filter.KeyFilter = &config.FilterKeyConfig{}
	case 2:
		cfg.Filter.KeyFilter = &config.FilterKeyConfig{PrefixKeyWhitelist: []string{"user", config.CheckpointKey}}
	case 3:
		cfg.Filter.SlotFilter = &config.FilterSlotConfig{KeySlotWhitelist: [][]uint16{{0, 16383}}}
	}
	ro := NewRedisOutput(cfg)
	pfx := []string{config.CheckpointKey, config.NamespacePrefixKey}[verifChoose("bkkey", 2)]
	bk := append([]byte(pfx), verifBytes("sfx", 2)...)
	verifAssert(ro.outFilter.FilterKey(string(bk)), "C10.bookkeeping-key-of-snapshot-forwarded")

	user := append([]byte("user"), verifBytes("ukey", 1)...)
	var stream []byte
	kind := verifChoose("cmd", 3)
	switch kind {
	case 0:
		stream = verifResp([]byte("SET"), bk, []byte("v"))
	case 1:
		stream = verifResp([]byte("HSET"), bk, []byte("f"), []byte("v"))
	default:
		stream = verifResp([]byte("DEL"), user, bk)
	}
	sendBuf := make(chan cmdExecution, 4)
	rw := usync.NewWaitCloser(nil)
	_ = ro.parseAofCommand(rw, bufio.NewReaderSize(bytes.NewReader(stream), 16), 1000, sendBuf)
	rw.Close(nil)
	close(sendBuf)
	n := 0
	for it := range sendBuf {
		n++
		for _, a := range it.Args {
			if b, ok := a.([]byte); ok {
				verifAssert(!bytes.HasPrefix(b, []byte(pfx)), "C10.bookkeeping-key-forwarded")
			}
		}
	}
	if kind == 2 {
		verifAssert(n == 1, "C10.user-key-dropped-with-bookkeeping-key")
	} else {
		verifAssert(n == 0, "C10.bookkeeping-key-forwarded")
	}
	verifReach("c10.bookkeeping.done")
}
