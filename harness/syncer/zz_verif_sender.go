package syncer

// Harness for the incremental sender loop (*RedisOutput).sendCmdsBatch and the
// real restart path StartPoint -> checkpoint.GetCheckpoint. Decides C01 (sender
// half), C02, C07, C09.

import (
	"github.com/mgtv-tech/redis-GunYu/config"
	"github.com/mgtv-tech/redis-GunYu/pkg/redis/checkpoint"
	"context"
	"strconv"
	"time"

	"github.com/mgtv-tech/redis-GunYu/pkg/log"
	"github.com/mgtv-tech/redis-GunYu/pkg/redis/client"
	usync "github.com/mgtv-tech/redis-GunYu/pkg/sync"
)

// verifTickers: harness-controlled ticker channels. Under the engine the
// time.NewTicker model hands them out in call order; natively the overlay
// rewrites time.NewTicker( -> verifNewTicker( in the file under test.
var (
	verifTickers   []chan time.Time
	verifTickerSeq int
	// how long a held batch's replies stay on the wire in native runs (the engine fires the timer
	// when no goroutine can run)
	verifHoldFor = 300 * time.Millisecond
)

func verifNewTicker(d time.Duration) *time.Ticker {
	if verifTickerSeq < len(verifTickers) {
		t := &time.Ticker{C: verifTickers[verifTickerSeq]}
		verifTickerSeq++
		return t
	}
	return time.NewTicker(time.Hour)
}

const (
	verifItData = iota
	verifItSelect
	verifItMulti
	verifItExec
	verifItPing
)

type verifItem struct {
	kind   int
	ce     cmdExecution
	id     int  // data items: ordinal
	group  int  // source transaction ordinal, 0 = none
	selNew bool // select items: true
}

type verifStream struct {
	items   []verifItem
	start   int64 // offset the run starts from
	startDb int
	nData   int
}

func verifDataKey(id int) []byte { return []byte("k" + strconv.Itoa(id)) }

// verifGenStream: a well-formed item sequence as parseAofCommand emits it:
// strictly increasing command-end offsets, SELECT only when the mapped DB
// changes, MULTI/EXEC properly bracketed, every item's Db = current mapped DB.
func verifGenStream(k int, startDb int, allowTxn bool) *verifStream {
	st := &verifStream{startDb: startDb}
	st.start = verifI64("start")
	verifAssume(verifAnd(st.start >= 0, st.start < 1<<40))
	off := st.start
	curDb := -1
	if startDb > 0 {
		// the parser first re-selects the DB recovered from the checkpoint, at the start offset
		st.items = append(st.items, verifItem{kind: verifItSelect, ce: buildSelectCmdExecution(startDb, off)})
		curDb = startDb
	}
	inTxn := false
	group := 0
	for i := 0; i < k; i++ {
		// strictly increasing command-end offsets (independent symbols: pure order constraints)
		noff := verifI64("off")
		verifAssume(verifAnd(noff > off, noff < 1<<41))
		off = noff
		kind := verifChoose("kind", 5)
		switch kind {
		case verifItData:
			it := verifItem{kind: verifItData, id: st.nData}
			it.ce = cmdExecution{Cmd: "set", Args: []interface{}{verifDataKey(st.nData), []byte("v")}, Offset: off, Db: curDb}
			if inTxn {
				it.group = group
			}
			st.nData++
			st.items = append(st.items, it)
		case verifItSelect:
			verifAssume(!inTxn)
			db := 1 + verifChoose("db", 2)
			verifAssume(db != curDb)
			curDb = db
			st.items = append(st.items, verifItem{kind: verifItSelect, ce: buildSelectCmdExecution(db, off)})
		case verifItMulti:
			verifAssume(allowTxn && !inTxn)
			inTxn = true
			group++
			st.items = append(st.items, verifItem{kind: verifItMulti, group: group, ce: cmdExecution{Cmd: "multi", Args: []interface{}{}, Offset: off, Db: curDb}})
		case verifItExec:
			verifAssume(inTxn)
			inTxn = false
			st.items = append(st.items, verifItem{kind: verifItExec, group: group, ce: cmdExecution{Cmd: "exec", Args: []interface{}{}, Offset: off, Db: curDb}})
		case verifItPing:
			verifAssume(!inTxn)
			st.items = append(st.items, verifItem{kind: verifItPing, ce: cmdExecution{Cmd: "ping", Args: []interface{}{}, Offset: off, Db: curDb}})
		}
	}
	return st
}

type verifSendRun struct {
	fake     *verifFake
	consumed int // items handed to the sender
	err      error
	seedReqs int // requests of the preceding full sync's checkpoint write (crashes inside it belong to C04)
}

// verifDrive runs the real sendCmdsBatch; a driver goroutine hands it, one at a
// time over unbuffered channels, the next source item or a tick of one of the
// three tickers (batch, keep-alive, checkpoint), as chosen by the environment,
// and finally closes the wait-closer (stop).
func verifDrive(ro *RedisOutput, st *verifStream, fake *verifFake, txnMode bool, maxTicks int, pipelined ...bool) *verifSendRun {
	isPipeline := len(pipelined) > 0 && pipelined[0]
	verifTickers = []chan time.Time{make(chan time.Time), make(chan time.Time), make(chan time.Time)}
	verifTickerSeq = 0
	sendBuf := make(chan cmdExecution)
	rw := usync.NewWaitCloser(nil)
	run := &verifSendRun{fake: fake}
	done := make(chan struct{})
	go func() {
		ticks := 0
		next := 0
		released := false
		defer func() {
			if fake.holdReceive > 0 && !released {
				close(fake.releaseReceive)
			}
		}()
		// tick: deliver a ticker firing; while the sender is stuck behind the held batch its replies
		// eventually arrive (false = the run has stopped)
		tick := func(ev int) bool {
			for {
				var idle <-chan time.Time
				if fake.holdReceive > 0 && !released {
					idle = time.After(verifHoldFor)
				}
				select {
				case verifTickers[ev-1] <- time.Time{}:
					return true
				case <-idle:
					released = true
					close(fake.releaseReceive)
				case <-rw.Done():
					return false
				}
			}
		}
		for next < len(st.items) {
			ev := 0
			if ticks < maxTicks {
				ev = verifChoose("event", 4) // 0 = next item, 1..3 = ticker
			}
			if ev == 0 {
				handed := false
				for !handed {
					var idle <-chan time.Time
					if fake.holdReceive > 0 && !released {
						// the sender may be stuck behind the slow batch: after a while its replies arrive
						idle = time.After(verifHoldFor)
					}
					select {
					case sendBuf <- st.items[next].ce:
						next++
						run.consumed = next
						handed = true
					case <-idle:
						released = true
						close(fake.releaseReceive)
					case <-rw.Done():
						close(done)
						return
					}
				}
			} else {
				ticks++
				if !tick(ev) {
					close(done)
					return
				}
			}
		}
		// trailing ticks after the last item, then stop
		for ticks < maxTicks {
			ev := verifChoose("tail", 4) // 0 = stop now
			if ev == 0 {
				break
			}
			ticks++
			if !tick(ev) {
				close(done)
				return
			}
		}
		rw.Close(nil)
		close(done)
	}()
	run.err = ro.sendCmdsBatch(rw, fake, ro.cfg.RunId, sendBuf, txnMode, isPipeline)
	// as RedisOutput.sendAof does: the run's result is the wait-closer's first error (in pipelined
	// sending the reply-receiver goroutine reports a failed batch there)
	rw.Close(run.err)
	if run.err == nil {
		run.err = rw.Error()
	}
	<-done
	return run
}

func verifNewOutput(txnMode bool, batchCount uint, fake *verifFake) *RedisOutput {
	ro := &RedisOutput{}
	ro.cfg.InputName = "in"
	ro.cfg.CheckpointName = "cp"
	ro.cfg.RunId = "rid1"
	ro.cfg.CanTransaction = txnMode
	ro.cfg.EnableResumeFromBreakPoint = true
	ro.cfg.TargetDb = -1
	ro.cfg.BatchCmdCount = batchCount
	ro.cfg.BatchBufferSize = 1 << 30
	ro.cfg.BatchTicker = time.Hour
	ro.cfg.KeepaliveTicker = time.Hour
	ro.cfg.UpdateCheckpointTicker = time.Hour
	ro.bisyncOffset.Store(-1)
	ro.logger = log.WithLogger("[verif] ")
	return ro
}

func verifIsOffsetField(r verifReq) (string, bool) {
	if r.cmd != "hset" || verifArgStr(r.args[0]) != "cp" {
		return "", false
	}
	for i := 1; i+1 < len(r.args); i += 2 {
		if verifArgStr(r.args[i]) == "rid1_offset" {
			return verifArgStr(r.args[i+1]), true
		}
	}
	return "", false
}

func verifTagOf(cmd string, args []interface{}) int {
	if cmd != "set" || len(args) == 0 {
		return -1
	}
	k := verifArgStr(args[0])
	if len(k) >= 2 && k[0] == 'k' {
		n, err := strconv.Atoi(k[1:])
		if err == nil {
			return n
		}
	}
	return -1
}

// verifCheckC01 : the data requests executed are a prefix of the source's data
// items, each once, in order, unaltered, in the designated DB; everything else
// the target saw is SELECT / MULTI / EXEC / PING / bookkeeping on the checkpoint key.
func verifCheckC01(st *verifStream, run *verifSendRun, txnMode bool) {
	// the source's MULTI/EXEC brackets are never forwarded themselves: without transactional sending
	// the target sees none, with it only the sender's own, properly alternating ones
	open := false
	for _, r := range run.fake.log {
		switch r.cmd {
		case "multi":
			verifAssert(txnMode, "C01.sender.forwards-source-transaction-bracket")
			verifAssert(!open, "C01.sender.nested-multi")
			open = true
		case "exec":
			verifAssert(txnMode && open, "C01.sender.forwards-source-transaction-bracket")
			open = false
		}
	}
	if run.err == nil {
		verifAssert(!open, "C01.sender.leaves-target-inside-multi")
	}
	next := 0
	var data []verifItem
	for _, it := range st.items {
		if it.kind == verifItData {
			data = append(data, it)
		}
	}
	for _, r := range run.fake.log {
		switch r.cmd {
		case "select", "multi", "exec", "ping":
			continue
		case "hset":
			verifAssert(verifArgStr(r.args[0]) == "cp", "C01.sender.invented-hset")
			continue
		}
		verifAssert(r.cmd == "set" && r.tag >= 0, "C01.sender.invented-command")
		if r.tag < 0 {
			continue
		}
		verifAssert(r.tag == next, "C01.sender.order-or-duplicate")
		if r.tag >= len(data) {
			continue
		}
		it := data[r.tag]
		verifAssert(len(r.args) == 2 && verifArgStr(r.args[1]) == "v", "C01.sender.args-altered")
		if it.ce.Db >= 0 {
			verifAssert(r.db == it.ce.Db, "C01.sender.wrong-db")
		}
		next = r.tag + 1
	}
	// consumed but not executed items may only be a queued tail (a stop is a crash for C02)
	verifCover(next == len(data) && len(data) > 0, "c01.all-data-executed")
	// (how much of the queued tail is flushed before the stop is a race: not observed for the differential)
}

// verifCheckC07 : every stored resume position is the start offset or the end
// offset of a consumed item, and the sequence never decreases.
func verifCheckC07(st *verifStream, run *verifSendRun, prevMax int64, havePrev bool) (int64, bool) {
	last, have := prevMax, havePrev
	for _, r := range run.fake.log {
		vs, ok := verifIsOffsetField(r)
		if !ok {
			continue
		}
		v, err := strconv.ParseInt(vs, 10, 64)
		verifAssert(err == nil, "C07.offset-not-a-number")
		isBoundary := v == st.start
		for i := 0; i < run.consumed && i < len(st.items); i++ {
			isBoundary = verifOr(isBoundary, v == st.items[i].ce.Offset)
		}
		verifAssert(verifOr(isBoundary, v != -1), "C07.stored-undefined-position")
		verifAssert(verifOr(isBoundary, v == -1), "C07.stored-non-boundary")
		if have {
			verifAssert(v >= last, "C07.stored-position-decreased")
		}
		last, have = v, true
		verifCover(true, "c07.some-position-stored")
	}
	return last, have
}

type verifResume struct {
	found   bool
	offset  int64
	db      int
}

// verifRestart runs the real start-up path against the target state left by a
// crash after the first p requests.
func verifRestart(log []verifReq, p int, txnMode bool, reverseDbOrder bool) verifResume {
	nf := verifStateAfter(log, p)
	nf.keyspaceReverse = reverseDbOrder
	ro := verifNewOutput(txnMode, 1, nf)
	ro.newRedisConn = func(context.Context) (client.Redis, error) { return nf, nil }
	sp, err := ro.StartPoint(context.Background(), []string{"rid1"})
	verifAssert(err == nil, "C02.startpoint-error")
	if err != nil || sp.RunId == "?" || sp.RunId == "" {
		return verifResume{}
	}
	return verifResume{found: true, offset: sp.Offset, db: sp.DbId}
}

// verifCheckC02 : for every crash prefix of the request log.
func verifCheckC02(st *verifStream, run *verifSendRun, txnMode bool) {
	log := run.fake.log
	// which data items are durably applied after p requests
	for pp := 2 * run.seedReqs; pp <= 2*len(log)+1; pp++ {
		// every crash prefix, and for each the restart visiting the target's databases in either order
		p := pp / 2
		rs := verifRestart(log, p, txnMode, pp%2 == 1)
		if !rs.found {
			// no usable position: the next start takes a full snapshot - nothing can be skipped
			verifReach("c02.no-position")
			continue
		}
		verifReach("c02.position-found")
		R := rs.offset
		execSeen := map[int]bool{}
		for i := 0; i < p; i++ {
			if log[i].cmd == "exec" {
				execSeen[log[i].txn] = true
			}
		}
		applied := map[int]bool{}
		selApplied := map[string]bool{}
		for i := 0; i < p; i++ {
			r := log[i]
			if r.txn != 0 && !execSeen[r.txn] {
				continue
			}
			if r.tag >= 0 {
				applied[r.tag] = true
			}
		}
		_ = selApplied
		// (a) no loss, (b) no repeat in transactional mode
		for _, it := range st.items {
			if it.kind != verifItData {
				continue
			}
			covered := it.ce.Offset <= R
			if applied[it.id] {
				if txnMode {
					verifAssert(covered, "C02.txn-mode-repeats-write")
				}
			} else {
				verifAssert(!covered, "C02.position-covers-unapplied-write")
			}
		}
		// (c) database of the first command executed after the resume point
		afterSelect := false
		for _, it := range st.items {
			if it.kind == verifItSelect && it.ce.Offset > st.start {
				// a source SELECT after the resume point re-establishes the DB
				if verifConcBool(it.ce.Offset > R) {
					afterSelect = true
				}
			}
			if it.kind == verifItData && verifConcBool(it.ce.Offset > R) {
				if !afterSelect && it.ce.Db >= 0 {
					want := it.ce.Db
					got := rs.db
					if got < 0 {
						got = 0
					}
					verifAssert(got == want, "C02.resumes-in-wrong-db")
				}
				break
			}
		}
		// (d) never inside a source transaction (brackets only exist for the target in transactional mode)
		for gi, it := range st.items {
			if !txnMode {
				break
			}
			if it.kind != verifItMulti {
				continue
			}
			closed := false
			for _, jt := range st.items[gi:] {
				if jt.kind == verifItExec && jt.group == it.group {
					closed = true
					inside := verifAnd(R >= it.ce.Offset, R < jt.ce.Offset)
					verifAssert(!inside, "C02.position-inside-source-transaction")
				}
			}
			if !closed {
				// the run was stopped while the source transaction was still open (its EXEC has not arrived):
				// nothing at or behind its MULTI may be recorded
				verifAssert(R < it.ce.Offset, "C02.position-inside-source-transaction")
				verifCover(true, "c02.stopped-inside-open-transaction")
			}
		}
	}
}

// verifConcBool forks on a symbolic condition (used where control flow of the
// oracle itself depends on it).
func verifConcBool(b bool) bool {
	if b {
		return true
	}
	return false
}

// verifCheckC09 : each source transaction reaches the target inside one
// MULTI/EXEC together with the position that covers it.
func verifCheckC09(st *verifStream, run *verifSendRun) {
	log := run.fake.log
	for _, it := range st.items {
		if it.kind != verifItExec {
			continue
		}
		// data items of this source group
		block := 0
		n, seen := 0, 0
		for _, d := range st.items {
			if d.kind == verifItData && d.group == it.group {
				n++
				for _, r := range log {
					if r.tag == d.id {
						seen++
						verifAssert(r.txn != 0, "C09.txn-command-outside-multi")
						if block == 0 {
							block = r.txn
						}
						verifAssert(r.txn == block, "C09.source-transaction-split")
					}
				}
			}
		}
		if seen == 0 {
			continue // not executed at all (stopped before): all-or-nothing holds
		}
		verifAssert(seen == n, "C09.source-transaction-partially-sent")
		// the same target block carries the position of the EXEC
		has := false
		for _, r := range log {
			if r.txn == block {
				if vs, ok := verifIsOffsetField(r); ok {
					v, _ := strconv.ParseInt(vs, 10, 64)
					has = verifOr(has, v == it.ce.Offset)
				}
			}
		}
		verifAssert(has, "C09.position-not-in-same-transaction")
		verifCover(true, "c09.transaction-executed")
	}
}

// VerifSenderTxn / VerifSenderNonTxn: one run from a fresh target.
func verifSender(txnMode bool, pipe ...bool) { verifSenderOn(nil, txnMode, pipe...) }

// verifGenAdjacentTxns: two source transactions back to back (EXEC directly followed by MULTI), the second
// one longer than a batch; symbolic increasing offsets.
func verifGenAdjacentTxns() *verifStream {
	st := &verifStream{}
	st.start = verifI64("start")
	verifAssume(verifAnd(st.start >= 0, st.start < 1<<40))
	off := st.start
	nextOff := func() int64 {
		noff := verifI64("off")
		verifAssume(verifAnd(noff > off, noff < 1<<41))
		off = noff
		return off
	}
	data := func(group int) {
		it := verifItem{kind: verifItData, id: st.nData, group: group}
		it.ce = cmdExecution{Cmd: "set", Args: []interface{}{verifDataKey(st.nData), []byte("v")}, Offset: nextOff(), Db: -1}
		st.nData++
		st.items = append(st.items, it)
	}
	bracket := func(kind int, cmd string, group int) {
		st.items = append(st.items, verifItem{kind: kind, group: group, ce: cmdExecution{Cmd: cmd, Args: []interface{}{}, Offset: nextOff(), Db: -1}})
	}
	bracket(verifItMulti, "multi", 1)
	data(1)
	bracket(verifItExec, "exec", 1)
	if verifParam("APING", 1) == 1 && verifChoose("pingBetween", 2) == 1 {
		st.items = append(st.items, verifItem{kind: verifItPing, ce: cmdExecution{Cmd: "ping", Args: []interface{}{}, Offset: nextOff(), Db: -1}})
	}
	bracket(verifItMulti, "multi", 2)
	n2 := verifRange("second", 2, verifParam("ASECOND", 3))
	for i := 0; i < n2; i++ {
		data(2)
	}
	bracket(verifItExec, "exec", 2)
	return st
}

func verifSenderOn(gen func() *verifStream, txnMode bool, pipe ...bool) {
	// blocking sending (Exec per batch) or pipelined sending (Dispatch, replies read by the receiver goroutine)
	pipelined := len(pipe) > 0 && pipe[0]
	k := verifParam("K", 3)
	maxTicks := verifParam("TICKS", 1)
	if pipelined {
		k = verifParam("PK", 3)
		maxTicks = verifParam("PTICKS", 0)
	}
	if gen != nil {
		maxTicks = verifParam("ATICKS", 1)
	}
	bc := uint(verifRange("batchCount", 1, verifParam("BC", 2)))
	var st *verifStream
	if gen != nil {
		st = gen()
	} else {
		st = verifGenStream(k, 0, true)
	}
	fake := verifNewFake()
	fake.tagOf = verifTagOf
	ro := verifNewOutput(txnMode, bc, fake)
	if verifChoose("smallBuffer", 2) == 1 {
		// byte limit below the size of a single write: every queued write reaches the size trigger
		ro.cfg.BatchBufferSize = 5
	}
	parts := verifParam("PARTS", 15) // 1 = C01, 2 = C07, 4 = C09, 8 = C02
	seedReqs := 0
	if parts&8 != 0 && verifChoose("afterFullSync", 2) == 1 {
		// the run follows a completed full sync: its checkpoint (with a modification time) sits in DB 0
		checkpoint.SetCheckpoint(fake, &checkpoint.CheckpointInfo{Key: "cp", RunId: "rid1", Version: "v", Offset: st.start})
		seedReqs = len(fake.log)
	}
	if pipelined && verifChoose("slowReplies", 2) == 1 {
		// a slow but healthy target: the replies of the first dispatched batch stay on the wire until
		// nothing else can happen (the sender fills its pipeline behind it meanwhile)
		fake.holdReceive = 1
		fake.releaseReceive = make(chan struct{})
		ro.cfg.KeepaliveTicker = 100 * time.Millisecond
	}
	run := verifDrive(ro, st, fake, txnMode, maxTicks, pipelined)
	run.seedReqs = seedReqs
	verifCover(pipelined && len(fake.log) > 0, "sender.pipelined-run")
	if parts&1 != 0 {
		verifAssert(run.err == nil, "C01.sender.error-on-healthy-target")
		verifCheckC01(st, run, txnMode)
	}
	if parts&2 != 0 {
		verifCheckC07(st, run, 0, false)
	}
	if parts&4 != 0 && txnMode {
		verifCheckC09(st, run)
	}
	if parts&8 != 0 {
		verifCheckC02(st, run, txnMode)
	}
	verifReach("sender.done")
}

func VerifSenderTxn()    { verifSender(true) }

// VerifSenderTxnAdjacent: transactional mode, two source transactions back to back (the second longer than
// a batch), blocking or pipelined sending, <= TICKS ticker firings - same oracles.
func VerifSenderTxnAdjacent() {
	verifSenderOn(verifGenAdjacentTxns, true, verifChoose("pipelined", 2) == 1)
}
func VerifSenderNonTxn() { verifSender(false) }

// the same with pipelined sending: batches are dispatched, their replies are read by the sender's
// receiver goroutine; the stop may fall between a batch's dispatch and its hand-over to the receiver
// VerifSenderInMem (C07, resume-from-breakpoint off): the resume position is kept in the process
// (RedisOutput.checkpointInMem, what StartPoint answers on the next reconnect) instead of on the
// target. It is sampled at every request the target receives and at the end: it only ever holds the
// start offset or the end offset of a consumed item, never the undefined -1, and never decreases.
func VerifSenderInMem() {
	txnMode := verifChoose("txnMode", 2) == 1
	k := verifParam("MK", 3)
	bc := uint(verifRange("batchCount", 1, verifParam("BC", 2)))
	st := verifGenStream(k, 0, true)
	fake := verifNewFake()
	fake.tagOf = verifTagOf
	ro := verifNewOutput(txnMode, bc, fake)
	ro.cfg.EnableResumeFromBreakPoint = false
	// as setCheckpoint leaves it after the full sync (or a previous incremental run)
	ro.checkpointInMem = checkpoint.CheckpointInfo{Key: "cp", RunId: "rid1", Version: "v", Offset: st.start}
	var samples []int64
	sample := func() {
		ro.cpGuard.RLock()
		samples = append(samples, ro.checkpointInMem.Offset)
		ro.cpGuard.RUnlock()
	}
	fake.onReq = func(int) { sample() }
	run := verifDrive(ro, st, fake, txnMode, verifParam("MTICKS", 1), verifChoose("pipelined", 2) == 1)
	sample()
	sp, err := ro.StartPoint(context.Background(), []string{"rid1"})
	verifAssert(err == nil && sp.RunId == "rid1", "C07.inmem.startpoint-lost")
	samples = append(samples, sp.Offset)
	last := st.start
	for _, v := range samples {
		isBoundary := v == st.start
		for i := 0; i < run.consumed && i < len(st.items); i++ {
			isBoundary = verifOr(isBoundary, v == st.items[i].ce.Offset)
		}
		verifAssert(verifOr(isBoundary, v != -1), "C07.inmem.stored-undefined-position")
		verifAssert(verifOr(isBoundary, v == -1), "C07.inmem.stored-non-boundary")
		verifAssert(v >= last, "C07.inmem.stored-position-decreased")
		last = v
	}
	for _, r := range fake.log {
		_, isCp := verifIsOffsetField(r)
		verifAssert(!isCp, "C07.inmem.position-written-to-target-although-disabled")
	}
	verifCover(len(fake.log) > 0 && last > st.start, "c07.inmem.position-advanced")
	verifReach("sender.inmem.done")
}

func VerifSenderPipeTxn()    { verifSender(true, true) }
func VerifSenderPipeNonTxn() { verifSender(false, true) }

// VerifC19SenderRetry (C19, sender level): the target refuses exactly one batch execution with a
// MOVED redirection and is healthy afterwards. Either the sender reports an error (a restart), or
// every write of the stream has been executed exactly once, in order - never a silent loss.
func VerifC19SenderRetry() {
	k := verifParam("K", 3)
	bc := uint(verifRange("batchCount", 1, verifParam("BC", 2)))
	// plain sending (the sender may retry a redirected batch) or transactional sending to a cluster
	// (a redirected batch has been partly executed by the node: re-sending it would execute commands twice)
	txnCluster := verifChoose("txnCluster", 2) == 1
	st := verifGenStream(k, 0, false)
	fake := verifNewFake()
	fake.tagOf = verifTagOf
	fake.moveBatch = verifRange("moveBatch", 1, 3)
	ro := verifNewOutput(txnCluster, bc, fake)
	if txnCluster {
		ro.cfg.Redis.Type = config.RedisTypeCluster
		fake.moveBatchPartial = true
	}
	run := verifDrive(ro, st, fake, txnCluster, 0)
	// (whether the stop arrives before or after the retry is a race: not observed for the differential)
	seen := map[int]bool{}
	for _, r := range run.fake.log {
		if r.cmd == "set" && r.tag >= 0 {
			verifAssert(!seen[r.tag], "C19.sender.command-executed-twice")
			seen[r.tag] = true
		}
	}
	if run.err == nil && !txnCluster {
		verifCheckC19Complete(st, run)
		verifCover(fake.batchRuns > fake.moveBatch, "c19.sender.retried")
	}
	verifCover(txnCluster && run.err != nil, "c19.sender.txn-cluster-redirect-reported")
	verifReach("c19.sender.done")
}

// verifCheckC19Complete: what was executed is a gap-free prefix of the stream's writes, each once, in
// order (a queued tail that a stop leaves unsent is a crash, judged by C02)
func verifCheckC19Complete(st *verifStream, run *verifSendRun) {
	got := 0
	for _, r := range run.fake.log {
		if r.cmd == "set" && r.tag >= 0 {
			verifAssert(r.tag == got, "C19.sender.silent-loss-after-redirect")
			got++
		}
	}
	verifAssert(got <= st.nData, "C19.sender.invented-write")
}
