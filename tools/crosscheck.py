#!/usr/bin/env python3
"""Cross-solver sampling: re-run one harness with a single worker, record the complete SMT-LIB
transcript the engine sends (GOSYM_SMTLOG), replay it in other solvers and compare every
check-sat answer with the one the deciding solver gave. unknown/timeouts on the other side are
counted, not compared. usage: tools/crosscheck.py <id> <Harness> [max_queries]"""
import os, re, subprocess, sys, tempfile, shutil, json
V='/verif'
pid, harness = sys.argv[1], sys.argv[2]
maxq = int(sys.argv[3]) if len(sys.argv) > 3 else 4000
tmp = tempfile.mkdtemp(prefix='gunyu-cross-')
log = os.path.join(tmp, 'q.smt2')
env = dict(os.environ, GOSYM_SMTLOG=log, VERIF_OUT=os.path.join(tmp, 'out'))
r = subprocess.run([f'{V}/check', pid, '-only', harness, '-workers', '1', '-no-native'], env=env, capture_output=True, text=True, timeout=3600)
print('engine run exit', r.returncode)
lines = open(log).read().split('\n')
# cut the transcript after maxq answers
ans = []; out = []; n = 0
for l in lines:
    m = re.match(r'; -> (\w+) in', l)
    if m:
        ans.append(m.group(1)); n += 1
        if n >= maxq: break
        continue
    out.append(l)
script = '\n'.join(out) + '\n'
def run(name, argv, pre, filt):
    s = pre + ''.join(l + '\n' for l in script.split('\n') if not filt(l))
    p = os.path.join(tmp, name + '.smt2'); open(p, 'w').write(s)
    try:
        r = subprocess.run(argv + [p], capture_output=True, text=True, timeout=3000)
    except subprocess.TimeoutExpired:
        return None
    return [l.strip() for l in r.stdout.split('\n') if l.strip() in ('sat', 'unsat', 'unknown', 'timeout')], r.stdout.count('(error')
res = {}
res['z3-4.8.12'] = run('z3old', ['/usr/bin/z3', '-T:3000'], '', lambda l: False)
res['cvc5-1.0'] = run('cvc5', ['cvc5', '--incremental', '--tlimit-per=20000'], '(set-logic ALL)\n', lambda l: l.startswith('(set-option :timeout'))
summary = {'property': pid, 'harness': harness, 'queries_compared': len(ans), 'deciding_solver_answers': {k: ans.count(k) for k in set(ans)}}
for k, v in res.items():
    if v is None:
        summary[k] = 'did not finish'; continue
    got, nerr = v
    agree = dis = unk = 0
    for a, b in zip(ans, got):
        if b in ('unknown', 'timeout') or a == 'unknown': unk += 1
        elif a == b: agree += 1
        else: dis += 1
    summary[k] = {'answers': len(got), 'agree': agree, 'disagree': dis, 'unknown_or_timeout': unk, 'error_lines': nerr}
print(json.dumps(summary, indent=1))
os.makedirs(f'{V}/evidence/cross', exist_ok=True)
json.dump(summary, open(f'{V}/evidence/cross/{pid}-{harness}.json', 'w'), indent=1)
shutil.rmtree(tmp)
