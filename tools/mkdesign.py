#!/usr/bin/env python3
"""Regenerates the generated blocks of DESIGN.md (between <!-- GEN:name --> and <!-- /GEN:name -->)
from specs/*.json, tools/checks.json, known_findings.json and seeded/*/meta.json."""
import json, glob, os, re, subprocess
V='/verif'
def props():
    return {json.loads(l)['id']:json.loads(l) for l in open(f'{V}/properties.jsonl')}
def gen_checks():
    P=props(); C={c['property_id']:c for c in json.load(open(f'{V}/tools/checks.json'))['checks']}
    out=[]
    for pid in sorted(P):
        sp=f'{V}/specs/{pid}.json'
        if not os.path.exists(sp): continue
        d=json.load(open(sp))
        out.append(f"#### {pid} — {P[pid]['title']}\n")
        hs=[]
        for u in d['units']:
            hs.append(f"`{u['package']}`: "+", ".join(f"`{h['func']}`" for h in u['harnesses']))
        out.append("Harnesses: "+"; ".join(hs)+".\n")
        q=d['tiers']['quick'].get('params',{}); t=d['tiers']['thorough'].get('params',{})
        out.append("Parameters: quick "+(", ".join(f"{k}={v}" for k,v in q.items()) or "—")+"; thorough "+(", ".join(f"{k}={v}" for k,v in t.items()) or "—")+".\n")
        if pid in C:
            out.append("Decided: "+C[pid]['text']+"\n")
        if d.get('bounds'):
            out.append("Bounds:\n"+"\n".join(f"- *{k}*: {v}" for k,v in d['bounds'].items())+"\n")
        if d.get('assumptions'):
            out.append("Assumptions and stubs (part of the claim):\n"+"\n".join(f"- {a}" for a in d['assumptions'])+"\n")
        rw=[]
        for u in d['units']:
            for kind in ('rewrite','native_rewrite'):
                for f,subs in (u.get(kind) or {}).items():
                    for a,b in subs:
                        rw.append(f"- {'both modes' if kind=='rewrite' else 'native runs only'}, `{u['package']}` {f}: `{a.strip()}` → `{b.strip()}`")
            for a,b in (u.get('replace') or {}).items():
                rw.append(f"- function replaced (symbolic run): `{a}` → `{b}`")
            for a,b in (u.get('replace_always') or {}).items():
                rw.append(f"- function replaced (both modes): `{a}` → `{b}`")
        if rw:
            out.append("Source rewrites / replacements:\n"+"\n".join(sorted(set(rw)))+"\n")
        if d.get('outside'):
            out.append("Outside the claim:\n"+"\n".join(f"- {a}" for a in d['outside'])+"\n")
        if pid in C:
            out.append("Trusted / residual: "+C[pid]['note']+"\n")
    return "\n".join(out)
def gen_fixes():
    d=json.load(open(f'{V}/known_findings.json'))
    out=["| property | commit | what failed |","|---|---|---|"]
    for l in d.get('fixed',[]):
        m=re.match(r'fixed: property=(\S+) (\S+) (.*)',l)
        if m: out.append(f"| {m.group(1)} | `{m.group(2)}` | {m.group(3).replace('|','/')} |")
    kf=d.get('findings',[])
    out.append("")
    out.append("Open known findings (reported as KNOWN-FINDING, exit 0): "+("none." if not kf else ""))
    for f in kf: out.append(f"- **{f['property']}**, assertion `{f['assert']}`: {f['what']}")
    return "\n".join(out)
def gen_seedsum():
    ms=[json.load(open(p)) for p in sorted(glob.glob(f'{V}/seeded/*/meta.json'))]
    c=lambda k: sum(1 for m in ms if m.get('status')==k)
    return (f"{len(ms)} seeded changes so far, all confirmed. {c('caught')} were caught by the check of their property as it "
            f"stood; {c('caught-by-other')} by the check of a neighbouring property (and, after strengthening, also by their own where that is "
            f"the right place); {c('inconclusive-first')} made its check end INCONCLUSIVE (a harness object without a logger panicked in "
            f"the native replay - corrected, then caught); {c('missed-first')} were **missed at first** - each miss led to a strengthening "
            f"of the check or of the engine's models (never to a loosening), after which it is caught"
            + (f"; {c('missed')} is **not caught** (see its row for why)" if c('missed') else "")
            + ":")
def gen_seeds():
    out=["| seed | breaks | the change | needs, to show up | result |","|---|---|---|---|---|"]
    for p in sorted(glob.glob(f'{V}/seeded/*/meta.json')):
        m=json.load(open(p))
        out.append(f"| {m['seed']} | {m['breaks_property']} | {m['change'].replace('|','/')} | {m['needs_to_manifest'].replace('|','/')} | {m['check_result'].replace('|','/')} |")
    return "\n".join(out)
G={'checks':gen_checks,'fixes':gen_fixes,'seeds':gen_seeds,'seedsum':gen_seedsum}
s=open(f'{V}/DESIGN.md').read()
for name,fn in G.items():
    a=f'<!-- GEN:{name} -->'; b=f'<!-- /GEN:{name} -->'
    if a in s and b in s:
        i=s.index(a)+len(a); j=s.index(b)
        s=s[:i]+"\n"+fn()+"\n"+s[j:]
open(f'{V}/DESIGN.md','w').write(s)
print('DESIGN.md blocks regenerated')
