#!/usr/bin/env python3
"""Regenerates /verif/MANIFEST.json from tools/checks.json (claimed checks) and properties.jsonl."""
import json, os
V = '/verif'
props = [json.loads(l) for l in open(f'{V}/properties.jsonl')]
checks = json.load(open(f'{V}/tools/checks.json'))
claimed = {c['property_id'] for c in checks['checks']}
out = {
 "version": 1,
 "setup_cmd": "cd /verif/engine && GOFLAGS=-mod=mod GOPROXY=off GOSUMDB=off GOTOOLCHAIN=local go build -o ../bin/gosym .",
 "hooks": {"guard": "verif",
           "enable": "none needed: harnesses are injected with go/packages Overlay (engine) and `go test -overlay` (native replay); /repo carries no hook code",
           "baseline_off_cmd": "cd /repo && GOFLAGS=-mod=mod GOPROXY=off go test -vet=off -count=1 -timeout 25m ./...",
           "source_commits": [], "add_only": True},
 "engines": [{"name": "gosym", "path": "/verif/engine", "serves_properties": sorted(claimed),
              "kind_free_text": "bounded symbolic executor over the go/ssa form of /repo's working tree (rebuilt every run, harness injected by overlay); path conditions and assertion obligations decided by z3 5.1.0 (z3-new; z3 4.8.12 as fallback) over bit-vectors; counterexamples replayed natively with go test -overlay"}],
 "checks": [],
 "not_applicable": [],
 "notes": checks.get("notes", ""),
}
for c in checks['checks']:
    pid = c['property_id']
    out['checks'].append({
        "property_id": pid,
        "quick_cmd": f"./check {pid} --tier quick",
        "thorough_cmd": f"./check {pid} --tier thorough",
        "evidence_file": f"/verif/evidence/{pid}.json",
        "replay_cmd_template": f"./check {pid} --replay {{path}}",
        "engine": "gosym",
        "level_claimed": {"category": "model_checking", "text": c['text'], "design_ref": c.get('design_ref', 'DESIGN.md section 5')},
        "level_note": c['note'],
        "technique": c.get('technique', "bounded symbolic execution of the real go/ssa, SMT (z3 bit-vectors) decides every path and assertion"),
    })
for p in props:
    if p['id'] not in claimed:
        out['not_applicable'].append({"property_id": p['id'], "reason": checks.get('pending', {}).get(p['id'], "check not yet built in this session (breadth-first build-out in progress); no claim is made")})
json.dump(out, open(f'{V}/MANIFEST.json', 'w'), indent=1)
print("claimed:", sorted(claimed))
