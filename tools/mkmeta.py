#!/usr/bin/env python3
# usage: tools/mkmeta.py <seed> <property> <status: caught|caught-neighbour|missed-first|inconclusive-first> <change> <needs> <check_result>
import json,sys,subprocess
seed,prop,status,change,needs,result=sys.argv[1:7]
head=subprocess.check_output(['git','-C','/repo','rev-parse','--short','HEAD']).decode().strip()
d={"seed":seed,"breaks_property":prop,"change":change,"needs_to_manifest":needs,
 "confirmed":f"tools/seedconfirm.sh in scratch worktree /tmp/wt_confirm_{seed} (at {head}): go build ./... ok; existing suite (go test -vet=off -count=1 ./..., demo tests skipped) passes with the change; demonstration fails with the change and passes without it",
 "check_result":result,"status":status,"author":"independent sub-agent given only the property text and a scratch worktree"}
json.dump(d,open(f'/verif/seeded/{seed}/meta.json','w'),indent=1)
print('ok')
