#!/bin/bash
# runs every claimed check (quick tier unless $1 given) and prints a summary
cd /verif
tier="${1:-quick}"
shift
ids="$*"
[ -z "$ids" ] && ids=$(python3 -c "import json;print(' '.join(c['property_id'] for c in json.load(open('MANIFEST.json'))['checks']))")
for id in $ids; do
  s=$(date +%s)
  timeout ${VERIF_TIMEOUT:-3600} ./check $id --tier $tier > /tmp/runall_${tier}_$id.log 2>&1
  rc=$?
  e=$(date +%s)
  echo "$id exit=$rc time=$((e-s))s $(grep -c '^VIOLATION' /tmp/runall_${tier}_$id.log) violations; $(grep -c '^INCONCLUSIVE' /tmp/runall_${tier}_$id.log) inconclusive"
done
