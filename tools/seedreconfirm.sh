#!/bin/bash
# usage: tools/seedreconfirm.sh <seed-name>
# Confirms a stored seed (seeded/<name>/patch.diff + demo/) in a fresh scratch worktree of /repo:
# builds, existing suite passes with the change, demo fails with and passes without it.
name="$1"
export GOFLAGS=-mod=mod GOPROXY=off GOSUMDB=off GOTOOLCHAIN=local
d=/verif/seeded/$name
wt=/tmp/wt_confirm_$name
git -C /repo worktree add -q --detach "$wt" HEAD || exit 9
res=""
( cd "$wt" && git apply "$d/patch.diff" ) || { echo "$name: PATCH DOES NOT APPLY"; git -C /repo worktree remove --force "$wt"; exit 1; }
( cd "$wt" && go build ./... ) > /tmp/confirm_$name.build.log 2>&1 && res="$res build=ok" || res="$res build=FAIL"
( cd "$wt" && go test -vet=off -count=1 -timeout 25m ./... ) > /tmp/confirm_$name.suite.log 2>&1 && res="$res suite=pass" || res="$res suite=FAIL"
pkgs=$(cd "$d/demo" && find . -name '*_test.go' -exec dirname {} \; | sort -u)
cp -r "$d/demo/." "$wt/"
( cd "$wt" && go test -vet=off -count=1 -timeout 10m $pkgs ) > /tmp/confirm_$name.demo_with.log 2>&1 && res="$res demo_with=PASS(bad)" || res="$res demo_with=fail(good)"
( cd "$wt" && git apply -R "$d/patch.diff" && go test -vet=off -count=1 -timeout 10m $pkgs ) > /tmp/confirm_$name.demo_without.log 2>&1 && res="$res demo_without=pass(good)" || res="$res demo_without=FAIL(bad)"
git -C /repo worktree remove --force "$wt"
echo "$name:$res head=$(git -C /repo rev-parse --short HEAD)"
