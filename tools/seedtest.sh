#!/bin/bash
# usage: tools/seedtest.sh <seed-dir-name> <check-id> [tier]   -- applies seeded/<name>/patch.diff to /repo, runs the check, undoes it
name="$1"; id="$2"; tier="${3:-quick}"
cd /verif
git -C /repo apply "/verif/seeded/$name/patch.diff" || { echo "patch does not apply"; exit 9; }
s=$(date +%s)
./check "$id" --tier "$tier" > "/tmp/seed_${name}_${id}.log" 2>&1
rc=$?
e=$(date +%s)
git -C /repo checkout -- .
echo "seed=$name check=$id tier=$tier exit=$rc time=$((e-s))s"
grep -h "^VIOLATION\|^   assert=" "/tmp/seed_${name}_${id}.log" | cut -c1-220 | head -6
grep -h "^INCONCLUSIVE" "/tmp/seed_${name}_${id}.log" | cut -c1-220 | head -3
