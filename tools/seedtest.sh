#!/bin/bash
# usage: tools/seedtest.sh <seed-dir-name> <check-id> [tier [extra ./check arguments]]
# Runs a check against a scratch worktree of /repo with seeded/<name>/patch.diff applied (the
# worktree lives under $TMPDIR and is removed afterwards); evidence and replays of that run go to a
# scratch directory, /repo and /verif/evidence are not touched.
name="$1"; id="$2"; tier="${3:-quick}"; shift; shift; shift 2>/dev/null  # further arguments go to ./check (e.g. -only Harness)
cd /verif
tmp="${TMPDIR:-/tmp}/gunyu-seedtest-$$"
wt="$tmp/repo"; out="$tmp/out"
mkdir -p "$tmp" "$out"
git -C /repo worktree add -q --detach "$wt" HEAD || { echo "cannot create worktree"; rm -rf "$tmp"; exit 9; }
# uncommitted changes of /repo (none expected) are not carried over
if ! git -C "$wt" apply "/verif/seeded/$name/patch.diff"; then
  echo "patch does not apply"; git -C /repo worktree remove --force "$wt"; rm -rf "$tmp"; exit 9
fi
s=$(date +%s)
VERIF_REPO="$wt" VERIF_OUT="$out" ./check "$id" --tier "$tier" "$@" > "/tmp/seed_${name}_${id}.log" 2>&1
rc=$?
e=$(date +%s)
echo "seed=$name check=$id tier=$tier exit=$rc time=$((e-s))s"
grep -h "^VIOLATION\|^   assert=" "/tmp/seed_${name}_${id}.log" | cut -c1-220 | head -6
grep -h "^INCONCLUSIVE" "/tmp/seed_${name}_${id}.log" | cut -c1-220 | head -3
git -C /repo worktree remove --force "$wt"
rm -rf "$tmp"
