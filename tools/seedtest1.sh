# usage: st1.sh seed check harness  -- seedtest restricted to one harness
name=$1; id=$2; h=$3
cd /verif; tmp=/tmp/gunyu-st1-$$; wt=$tmp/repo; out=$tmp/out; mkdir -p $tmp $out
git -C /repo worktree add -q --detach $wt HEAD || exit 9
git -C $wt apply /verif/seeded/$name/patch.diff || { git -C /repo worktree remove --force $wt; exit 9; }
s=$(date +%s)
VERIF_REPO=$wt VERIF_OUT=$out ./check $id --tier quick -only $h > /tmp/st1_${name}.log 2>&1; rc=$?
e=$(date +%s)
echo "seed=$name check=$id harness=$h exit=$rc time=$((e-s))s"
grep -h "^VIOLATION\|^   assert=" /tmp/st1_${name}.log | cut -c1-230 | head -4
grep -h "^INCONCLUSIVE" /tmp/st1_${name}.log | cut -c1-230 | head -3
git -C /repo worktree remove --force $wt; rm -rf $tmp
